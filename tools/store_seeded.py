#!/usr/bin/env python3
"""Move verified candidates from an inbox into seeded/<prop>-m<N>/.
usage: store_seeded.py <inbox> <round label> <first index> [props...]
 inbox/<prop>/m1 -> seeded/<prop>-m<first>, m2 -> m<first+1>.  Only candidates whose verified.json
 says: applies, both builds ok, suite 57/0, demo fails with and passes without."""
import json, os, shutil, sys
inbox, label, first = sys.argv[1], sys.argv[2], int(sys.argv[3])
props = sys.argv[4:] or sorted(os.listdir(inbox))
for p in props:
    for k in (1, 2):
        d = f"{inbox}/{p}/m{k}"
        if not os.path.isfile(f"{d}/verified.json"): continue
        v = json.load(open(f"{d}/verified.json"))
        ok = (v.get("applies") and v["build_fail"] == 0 and v["hooks_build_fail"] == 0 and
              v["tests_pass_fail"].split()[1] == "0" and v["demo_fails_with_patch"] == 1 and
              v["demo_fails_without_patch"] == 0)
        if not ok:
            print("REJECTED", d, v); continue
        dst = f"/verif/seeded/{p}-m{first + k - 1}"
        os.makedirs(dst, exist_ok=True)
        for f in ("patch.diff", "demo.rs"): shutil.copy(f"{d}/{f}", dst)
        m = json.load(open(f"{d}/meta.json"))
        m["property"] = p
        m["confirmed_in_scratch_worktree"] = {
            "by": "tools/verify_seeded.sh", "patch_applies_to_HEAD": True,
            "cargo_build_workspace_ok": True, "cargo_build_verif_hooks_ok": True,
            "repo_test_suite_pass_fail_counts(incl. 3 doctests)": v["tests_pass_fail"],
            "demo_fails_with_patch": True, "demo_passes_without_patch": True}
        m["origin"] = f"written by an independent sub-agent ({label}) that saw only the property text and a scratch worktree"
        json.dump(m, open(f"{dst}/meta.json", "w"), indent=1)
        print("stored", dst)
