#!/usr/bin/env python3
"""Regenerates /verif/MANIFEST.json from the table below (kept next to the code so the two stay in step)."""
import json
TECH = "explicit-state bounded exhaustive exploration of the real code (parallel BFS/DFS over construction steps, canonical-form de-duplication) against an independent reference model"
CLAIMED = {
 "C01": dict(level="model_checking", ref="DESIGN.md 5 (C01)",
   text="Bounded exhaustive exploration of the real generator: every state of the registry drivers crossed with the settings neighbourhood is generated, parsed and interpreted, and for every registry id the Rust type the generator names must be bisimilar to the registry's SCALE shape (names, indices, primitive kinds, compact markers, structure, bit store/order).",
   note="Registries come from the SPM elaborator (compared entry-for-entry with real scale-info on the conformance corpus at every start); external core/alloc/codec paths are interpreted by a hand-written table; bounds per driver are in the evidence."),
 "C02": dict(level="model_checking", ref="DESIGN.md 5 (C02)",
   text="Bounded exhaustive exploration (D-arms x settings neighbourhood, D-generic, D-family after de-duplication, Polkadot full and all single-id closures): every emitted module is parsed with syn and checked by a name resolver and structural oracle - paths rooted at the types module resolve through the `use super::<root>` chain to an emitted item with matching arity, every generic parameter is used, names are unique per module, no cycle of generated types avoids heap indirection, every namespaced registry type has its item.",
   note="rustc itself is the oracle only in the compile-farm tier; the quick tier decides with the interpreter's resolver, whose rules are those of Rust for the constructs the generator emits."),
 "C03": dict(level="model_checking", ref="DESIGN.md 5 (C03)",
   text="Bounded exhaustive exploration of same-path families (driver D-family: all families of <=2 (thorough 3) members over the twin alphabet, all member forms and lead orders; D-generic without the coincidence filter; Polkadot): on the raw registry generation must fail with the duplicate-path error or every id must be wire-faithful (independent shape semantics, not the implementation's types_equal); after ensure_unique_type_paths every id must be faithful.",
   note="Coincident generic families (first instantiation coincides with a nested component / repeated argument / Box<T>) are recorded known findings, identified by the input class in the signature; the 'randomly beyond the bound' clause is not sampled."),
 "C04": dict(level="model_checking", ref="DESIGN.md 5 (C04)",
   text="Same exploration as C03 plus digit-suffixed neighbours: the registry after ensure_unique_type_paths must equal a reference result computed from the source program (same generalised source definition <=> same name; groups numbered 1..k by first appearance; nothing else touched), generation afterwards must not fail with the duplicate-path error, and a second run must change nothing.",
   note="For Polkadot (no source) only the frame, sufficiency, idempotence and old-name-plus-k clauses are checked. The suffix collision Foo/Foo1 is a recorded known finding."),
 "C05": dict(level="model_checking", ref="DESIGN.md 5 (C05)",
   text="Bounded exhaustive exploration of generic source definitions (driver D-generic: 3 body forms x 5 parameter forms x all field lists of <=2 (thorough 3) fields over a 20-entry parameter-centred alphabet x all sets of <=2 (thorough 3) instantiations, filtered by coincidence-freeness): exactly one item per definition, generics = non-skipped parameters by declared position, every field type equal to the source field type under the documented normalisations (independent reference printer), marker names exactly the unused parameters, every instantiation resolves to that item with its own arguments.",
   note="Source programs are SPM programs; their registries come from the elaborator (conformance-checked against real scale-info at every start)."),
 "C06": dict(level="model_checking", ref="DESIGN.md 5 (C06), 6",
   text="For every case of a corpus (registries with several renamed paths, unused parameters, generics, a chain-metadata closure x settings with same-last-segment derives, attributes differing only in arguments, specific+recursive registrations, substitutes, unknown paths): every permutation of each registration list, every map-iteration schedule with <= 2 (large traces: <= 1) deviating iteration points plus uniform permutations - explored through the verif-hooks schedulable maps, like a context-bounded scheduler - and 3 fresh mc-plain processes with real std maps must give a token-identical module, de-duplicated registry and validation result; derive/attribute lists must be strictly sorted.",
   note="Map seeds are represented by iteration orders of look-alike maps (feature verif-hooks); the look-alike is tied to std maps by the mc/mc-plain differential run on every case. The level of schedule exploration completed per case is in the evidence."),
 "C07": dict(level="model_checking", ref="DESIGN.md 5 (C07)",
   text="Driver D-subst: 5 shapes of the substituted type (0/1/2 parameters, one skipped, the prelude BTreeMap) x 13 use sites (root, named/unnamed/variant field, boxed, under Vec/Option/array/tuple/map value, as argument of another generic type, of itself, inside a generic parent where its argument is the parent's parameter) x 14 rule forms (pass-through, same, swapped, nested, repeated, fixed extra, fewer/more target parameters, generics on one side only, crate::-rooted, `_N`-named source parameters): the substituted path must be neither defined nor mentioned, and every resolve_type_path(id) and every emitted field type must equal an independent reference substitution (token-tree walk written from the statement).",
   note="Expected paths come from the independent printer families::Expect; one rule at a time."),
 "C08": dict(level="model_checking", ref="DESIGN.md 5 (C08)",
   text="Driver D-graph (all type graphs grown edge by edge: struct/enum/generic/wrapper/empty-enum nodes, 10 kinds of reference incl. marker-only generic argument, cycles) x every registration of {specific derive, specific attribute, recursive derive, recursive attribute, both} on up to two nodes (plus global ones, CompactAs path set/unset): every emitted item's derive and attribute set must lie between the lower bound (global + own path + closure over generated items mentioned in field types of a recursively registered item + CompactAs iff single unsigned field) and the upper bound (registry reachability incl. type parameters).",
   note="The recursive clause is checked as two bounds, exact where the statement is exact."),
 "C09": dict(level="model_checking", ref="DESIGN.md 5 (C09)",
   text="For every D-arms registry mentioning a heap prelude type (field level, nested, generic argument, inside a substituted parameter) plus all leaves: all 192 vertices of the switch cube (alloc path x docs x codec attributes x root name x compact path x bits path x a generic substitute) with per-vertex oracles (no `std`, every Vec/String/Box/Cow/collection path rooted at the alloc path, exact doc lines incl. blank ones, codec attributes iff on, variant indices, compact markers), and every cube edge checked metamorphically (rewriting the governed tokens of one endpoint gives the other token for token).",
   note="Edges between a failing (path unset) and a succeeding vertex are not compared."),
 "C10": dict(level="fault_enumeration", ref="DESIGN.md 5 (C10)",
   text="Every single fault of each documented kind (id swap, id shift, named/unnamed mix per field, compact path unset, bits path unset, dangling id at every field / element / tuple element / bit store / bit order / type parameter site) on every base registry of driver D-arms, evaluated through generate_types_mod, ensure_unique_type_paths and resolve_type_path of every id under catch_unwind and compared with the documented error variant and payload computed by a reference traversal; plus the fault-free side (D-arms with special type names, D-generic, D-family, real scale-info corpus registries, Polkadot): Ok or DuplicateTypePath only, never a panic.",
   note="Which calls reach a fault is decided by a reference traversal written from the documented behaviour. PhantomData in type position is a recorded known finding."),
 "C11": dict(level="model_checking", ref="DESIGN.md 5 (C11)",
   text="All assignments of 8 registration kinds to 2 known + 2 unknown paths (one unknown path a proper suffix of a known one) x 3 registries x all map-iteration schedules with <= 2 deviating points: the validation result, as sets, must equal a set-algebra model of 'unknown paths' (each once, union of specific and recursive registrations, substitutes with targets). All ordered selections of <= 4 registry paths x 9 queries for the similar-path query against a list model.",
   note="Set/list reference models written from the property statement."),
 "C12": dict(level="model_checking", ref="DESIGN.md 5 (C12)",
   text="Every registry of D-graph (type graphs with cycles, empty enums, compact wrappers, generics), D-arms and every id of the Polkadot registry x every id x every seed of an enumerated seed range, evaluated in crash-isolated worker subprocesses: no panic, termination, same seed same value, Ok whenever no cycle and no empty enum is reachable, and every returned value must encode against the type id, decode back consuming all input, and equal the original.",
   note="Seeds are enumerated over a stated range (the variant coverage reached is measured and reported); chars cannot be encoded by scale-encode 0.10 at all (recorded known finding)."),
 "C13": dict(level="model_checking", ref="DESIGN.md 5 (C13)",
   text="The same registries plus D-generic x every id x {plain, formatted}, in crash-isolated workers: the description must succeed and be read completely by a lock-step reader walking it together with the registry (field names, variants, primitives, array lengths, tuple arity incl. one-element marker, Box/Compact/Vec wrappers, generic arguments with `_` for skipped ones; expanded or name form at each position), every reachable struct/enum must be written out in full at least once, and formatted == unformatted modulo whitespace.",
   note="The reader is written from the property statement; termination = result within 10 s in a worker."),
 "C14": dict(level="model_checking", ref="DESIGN.md 5 (C14)",
   text="The same registries (ids reaching bit sequences / 256-bit integers excluded) x every id x enumerated seeds x 2 path settings, in crash-isolated workers: every returned example must parse as syn::Expr and be read by a lock-step reader against the item the generator emits for the same id (generated path without generics, field names and arity including the unused-parameter marker, typed literals, tuple / array / vec shape); same seed same tokens; recursion gives Err, not a crash.",
   note="The reader is lenient exactly where the statement is (Compact(..) accepted never required, prelude composites only by path and components)."),
 "C15": dict(level="model_checking", ref="DESIGN.md 5 (C15)",
   text="Exhaustive enumeration of the formatter's input space up to a length bound (all strings over the 9-symbol alphabet; all properly nested strings to a larger bound; macro-letter strings straddling the 32-character look-ahead; every description the crate produces for Polkadot and D-arms), each run through the real formatter and compared with the whitespace-erasure oracle and an independent indentation reader.",
   note="The 'randomly for longer strings' clause is not sampled (sampling is a different family); longer strings are covered by the structured families only. Termination = completion inside the wall budget."),
 "C16": dict(level="model_checking", ref="DESIGN.md 5 (C16)",
   text="Breadth-first search over all histories of public builder calls (52-call alphabet incl. one invalid argument per documented error kind) up to depth 3 (thorough 4), states = abstract settings; every transition replays the history on fresh real objects and compares: returned error kind, 'rejected => rules unchanged', complete observable content (getters, iter, contains) against the map/set accumulator model, and the derives/attributes actually emitted on a probe registry (parent/child/unrelated) under all map-iteration schedules with <= 1 deviating point.",
   note="Specific vs recursive registrations are only distinguishable through generation on the probe registry."),
 "C17": dict(level="model_checking", ref="DESIGN.md 5 (C17)",
   text="Driver D-perm: for every registry of D-arms, coincidence-free D-generic, D-family and D-graph, all n! consistent renumberings for n <= 5 (thorough 7) explored as the Cayley graph of adjacent transpositions (all transpositions, rotations and the reversal above that; a stride of them for Polkadot): module token-identical, same partition into renamed groups, same module after de-duplication; and every single-id and pair closure obtained with the real PortableRegistry::retain: same item per retained path, same description, same example for retained ids.",
   note="Twins carry equal docs; after de-duplication only the partition is compared (suffixes follow order of appearance)."),
 "C18": dict(level="model_checking", ref="DESIGN.md 5 (C18)",
   text="For every variant of every enum and every struct of every item emitted without generic parameters in D-arms, D-graph and the Polkadot registry x 5 settings: the struct built through create_composite_ir_kind + CompositeIR::new + upcast_composite is parsed and interpreted in the scope of the generated root module: field names, order, pub, per-field shape bisimilar to the registry field (compact marker included), field types and compact markers token-identical to the generated item's own variant, derives/attributes exactly the global ones plus CompactAs under the single-unsigned-field rule.",
   note="Byte-level equality with the variant payload follows from per-field shape equality; real encodings belong to the compile-farm tier."),
}
WIP = "check not built yet in this session (planned design: DESIGN.md section 5)"
props=[json.loads(l) for l in open('/verif/properties.jsonl')]
checks=[]; na=[]
for p in props:
    i=p['id']
    if i in CLAIMED:
        c=CLAIMED[i]
        checks.append({"property_id":i,"quick_cmd":f"./check {i} --tier quick","thorough_cmd":f"./check {i} --tier thorough",
          "evidence_file":f"/verif/evidence/{i}.json","replay_cmd_template":"./check --replay {path}","engine":"mc",
          "level_claimed":{"category":c['level'],"text":c['text'],"design_ref":c['ref']},"level_note":c['note'],"technique":c.get('technique',TECH)})
    else:
        na.append({"property_id":i,"reason":WIP})
m={"version":1,"setup_cmd":"./check --setup",
 "hooks":{"guard":"cargo feature `verif-hooks` of crate scale-typegen (off by default)",
  "enable":"the harness binary `mc` depends on scale-typegen with features=[\"verif-hooks\"]; `mc-plain` is the same harness without it",
  "baseline_off_cmd":"./check --baseline-off","source_commits":["ee92f9c","b1e0961","fea1992"],"add_only":True},
 "engines":[{"name":"mc","path":"/verif/mc","serves_properties":sorted(CLAIMED),"kind_free_text":"home-grown explicit-state explorer (level-synchronous parallel BFS with canonical-form de-duplication; DFS for tree-shaped spaces) driving the real scale-typegen / scale-typegen-description API"}],
 "checks":checks,"not_applicable":na,
 "notes":"All checks rebuild the harness against /repo's working tree and run the real code. Exit 0 = held on everything explored (KNOWN-FINDING lines possible); 1 = VIOLATION; 2 = machinery failure (never a verdict)."}
json.dump(m,open('/verif/MANIFEST.json','w'),indent=1)
print("claimed:",sorted(CLAIMED))
