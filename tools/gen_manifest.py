#!/usr/bin/env python3
"""Regenerates /verif/MANIFEST.json from the table below (kept next to the code so the two stay in step)."""
import json
TECH = "explicit-state bounded exhaustive exploration of the real code (parallel BFS/DFS over construction steps, canonical-form de-duplication) against an independent reference model"
CLAIMED = {
 "C01": dict(level="model_checking", ref="DESIGN.md 5 (C01)",
   text="Bounded exhaustive exploration of the real generator: every state of the registry drivers crossed with the settings neighbourhood is generated, parsed and interpreted, and for every registry id the Rust type the generator names must be bisimilar to the registry's SCALE shape (names, indices, primitive kinds, compact markers, structure, bit store/order).",
   note="Registries come from the SPM elaborator (compared entry-for-entry with real scale-info on the conformance corpus at every start); external core/alloc/codec paths are interpreted by a hand-written table; bounds per driver are in the evidence."),
 "C15": dict(level="model_checking", ref="DESIGN.md 5 (C15)",
   text="Exhaustive enumeration of the formatter's input space up to a length bound (all strings over the 9-symbol alphabet; all properly nested strings to a larger bound; macro-letter strings straddling the 32-character look-ahead; every description the crate produces for Polkadot and D-arms), each run through the real formatter and compared with the whitespace-erasure oracle and an independent indentation reader.",
   note="The 'randomly for longer strings' clause is not sampled (sampling is a different family); longer strings are covered by the structured families only. Termination = completion inside the wall budget."),
}
WIP = "check not built yet in this session (planned design: DESIGN.md section 5)"
props=[json.loads(l) for l in open('/verif/properties.jsonl')]
checks=[]; na=[]
for p in props:
    i=p['id']
    if i in CLAIMED:
        c=CLAIMED[i]
        checks.append({"property_id":i,"quick_cmd":f"./check {i} --tier quick","thorough_cmd":f"./check {i} --tier thorough",
          "evidence_file":f"/verif/evidence/{i}.json","replay_cmd_template":"./check --replay {path}","engine":"mc",
          "level_claimed":{"category":c['level'],"text":c['text'],"design_ref":c['ref']},"level_note":c['note'],"technique":c.get('technique',TECH)})
    else:
        na.append({"property_id":i,"reason":WIP})
m={"version":1,"setup_cmd":"./check --setup",
 "hooks":{"guard":"cargo feature `verif-hooks` of crate scale-typegen (off by default)",
  "enable":"the harness binary `mc` depends on scale-typegen with features=[\"verif-hooks\"]; `mc-plain` is the same harness without it",
  "baseline_off_cmd":"./check --baseline-off","source_commits":["ee92f9c"],"add_only":True},
 "engines":[{"name":"mc","path":"/verif/mc","serves_properties":sorted(CLAIMED),"kind_free_text":"home-grown explicit-state explorer (level-synchronous parallel BFS with canonical-form de-duplication; DFS for tree-shaped spaces) driving the real scale-typegen / scale-typegen-description API"}],
 "checks":checks,"not_applicable":na,
 "notes":"All checks rebuild the harness against /repo's working tree and run the real code. Exit 0 = held on everything explored (KNOWN-FINDING lines possible); 1 = VIOLATION; 2 = machinery failure (never a verdict)."}
json.dump(m,open('/verif/MANIFEST.json','w'),indent=1)
print("claimed:",sorted(CLAIMED))
