#!/usr/bin/env python3
"""(Re)writes section 14 of DESIGN.md from /verif/seeded/*/meta.json and detection.txt."""
import json,glob,os,re
rows=[]
for d in sorted(glob.glob('/verif/seeded/*/')):
    sid=os.path.basename(d.rstrip('/'))
    try: m=json.load(open(d+'meta.json'))
    except Exception: continue
    det=open(d+'detection.txt').read() if os.path.exists(d+'detection.txt') else ''
    res=[]
    for l in det.splitlines():
        mm=re.match(r'check=(\S+) tier=(\S+) exit=(\d+) violations=(\d+)',l)
        if mm:
            c,t,e,v=mm.groups()
            res.append(f"{c}: {'**reported** ('+v+' sig.)' if e=='1' else ('not reported' if e=='0' else 'exit '+e)}")
        elif 'BUILD FAILED' in l: res.append('harness did not build')
    sigs=[l.strip().replace('signature: ','') for l in det.splitlines() if 'signature:' in l][:2]
    summ=(m.get('summary') or '').replace('|','/').replace('\n',' ')
    if len(summ)>170: summ=summ[:167]+'...'
    needs=(m.get('needs_to_manifest') or '').replace('|','/').replace('\n',' ')
    if len(needs)>150: needs=needs[:147]+'...'
    why=m.get('not_reported_because')
    resl='; '.join(res) or 'not run yet'
    if why: resl+=' - '+why.replace('|','/')
    rows.append((sid,m.get('property',''),summ,needs,resl,', '.join(sigs)))
out=["## 14. Detection results: seeded changes and which checks report them\n",
"Every change below compiles, passes the repository's 54 tests (re-run in a scratch worktree by",
"`tools/verify_seeded.sh`), and - for the `Cxx-mK` rows - comes with a demonstration that fails with the",
"change and passes without it. The `Cxx-mK` changes were written by independent sub-agents that saw only",
"the property text and a scratch worktree (nothing from /verif); `FIX-<commit>` rows are the reverts of the",
"repairs of section 13. Nine rounds of 36 changes were collected (two per property and round); from the second",
"round on the agents were told which kinds of change earlier rounds had delivered and were pointed elsewhere",
"(the prompts are kept under tools/prompts/): round 3 interactions of two features and state carried between",
"calls, round 4 helper functions, trait impls, prelude-name collisions, raw identifiers and boundary sizes,",
"round 5 first-vs-later occurrences, order of checks, byte-vs-char handling and key spelling, round 6 quietly",
"defaulted Option/Result values, string round trips and the shapes of real chain metadata, round 7 literal",
"rendering, module layout, less-used settings, degenerate and very deep registries, round 8 the interplay of two",
"features (a substituted type inside a generic definition, settings used twice, recursive registrations meeting",
"instantiations), round 9 the small-scope boundary itself (changes that need at least THREE of something -",
"instantiations, nesting levels, parameters, cycle length, fields - where one or two behave). A tenth, smaller",
"round (one change each for C06 C07 C09 C11 C12 C13 C15 C16, stored as `-m19`) asked for error / fallback paths,",
"early returns, swapped Option/Result combinators and state re-used between calls; three of its eight changes",
"were missed at first (C06-m19 attribute-only recursive roots, C07-m19 a relative multi-segment fixed argument,",
"C09-m19 a blank doc line at the end) and are reported after the alphabets were widened. Of the 332 changes",
"about a quarter were NOT reported by the quick tier as it stood when they arrived; every miss was turned into",
"a wider alphabet or a further oracle clause (sections 12.3 and 15) and re-run, which is what the table shows.",
"Each was applied to a scratch worktree of /repo (never to /repo itself), the harness",
"rebuilt against it (`tools/try_seeded.sh`), and the quick tier of the listed checks run. 'reported' = exit 1",
"with VIOLATION lines; the first signatures are shown. Where a check other than the property's own is listed,",
"it was run to see how far the change shows (a miss there is not a miss of the property).\n",
"| seeded change | property | what it does | needs | quick-tier result | first signatures |",
"|---|---|---|---|---|---|"]
for r in rows: out.append("| "+" | ".join(r)+" |")
prim=[r for r in rows if r[0][:3]==r[1] or r[0].startswith('FIX')]
def primary_reported(r):
    own=r[1]
    return (own+': **reported**') in r[4]
n=len(rows); ok=sum(1 for r in rows if primary_reported(r))
out.append(f"\nSummary: {ok} of {n} seeded changes are reported by the quick tier of the check of the property they break.")
# ---- behaviour-preserving changes (false-alarm probes)
brows=[]
for d in sorted(glob.glob('/verif/benign/*/')):
    bid=os.path.basename(d.rstrip('/'))
    try: m=json.load(open(d+'meta.json'))
    except Exception: continue
    det=open(d+'detection.txt').read() if os.path.exists(d+'detection.txt') else ''
    runs=re.findall(r'check=(\S+) tier=\S+ exit=(\d+) violations=(\d+)',det)
    alarms=[c for c,e,v in runs if e!='0']
    summ=(m.get('summary') or '').replace('|','/').replace('\n',' ')
    if len(summ)>200: summ=summ[:197]+'...'
    obs=(m.get('what_changes_observably') or '').replace('|','/').replace('\n',' ')
    if len(obs)>200: obs=obs[:197]+'...'
    brows.append((bid,summ,obs,f"{len(runs)} checks run; "+("all silent" if not alarms else "ALARM: "+", ".join(alarms)) if runs else 'not run yet'))
if brows:
    out.append("\n### 14.1 Behaviour-preserving changes: do the checks stay silent?\n")
    out.append("The opposite probe: independent sub-agents were given all 18 property texts and asked for real, observable")
    out.append("changes to the library (other spellings, other error texts, equivalent algorithms and data structures, different")
    out.append("behaviour outside every quantifier) that keep every property, with an argument per property. Each was applied in a")
    out.append("scratch worktree, the repository's tests re-run, and the quick tier of ALL 18 checks run (`tools/try_benign.sh`).")
    out.append("An alarm here is a false alarm of the machinery unless the change turns out to break a property after all; the")
    out.append("bring-up log (section 15) records what was found and corrected. After the additions of rounds 8 and 9 twelve of")
    out.append("the changes (those touching markers, recursive derives, validation, de-duplication, alloc paths, field lists)")
    out.append("were run again against the checks whose code had changed: 139 check runs, all silent")
    out.append("(`benign/summary_round3_subset.txt`; the table shows the full 18-check runs).\n")
    out.append("| change | what it does | what changes observably | result |")
    out.append("|---|---|---|---|")
    for r in brows: out.append("| "+" | ".join(r)+" |")
    nb=sum(1 for r in brows if 'all silent' in r[3])
    out.append(f"\nSummary: {nb} of {len(brows)} behaviour-preserving changes pass all 18 quick tiers without a VIOLATION line.")
text="\n".join(out)+"\n"
p='/verif/DESIGN.md'; s=open(p).read()
a=s.find("## 14. Detection results")
if a>=0:
    b=s.find("\n---------------------------------------------------------------------------\n\n## 15.",a)
    s=s[:a]+text+s[b:]
else:
    b=s.find("---------------------------------------------------------------------------\n\n## 15.")
    s=s[:b]+"---------------------------------------------------------------------------\n\n"+text+"\n"+s[b:]
open(p,'w').write(s)
print(f"{ok}/{n} reported by own check")
for r in rows:
    if not primary_reported(r): print("  NOT by own check:",r[0],r[4])
