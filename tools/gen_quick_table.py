#!/usr/bin/env python3
"""Rewrites the table of DESIGN.md section 12.4 from /verif/evidence/*.json (quick-tier evidence, as committed)."""
import json,re
rows=[]
for i in range(1,19):
    pid=f"C{i:02d}"
    try: e=json.load(open(f'/verif/evidence/{pid}.json'))
    except Exception: continue
    cov=e['coverage']; ds=cov['drivers']
    parts=[]
    for d in ds:
        name=d['driver'].replace('|','/')
        if len(name)>110: name=name[:107]+'...'
        parts.append(f"{name}: {d['states']:,} states, {d['transitions']:,} transitions, {d['impl_executions']:,} executions"+("" if d['exhaustive'] else f" (CAPPED: {d['cap_hit']})"))
    tot_s=sum(d['states'] for d in ds); tot_x=sum(d['impl_executions'] for d in ds)
    wall=sum(d['wall_s'] for d in ds)
    rows.append(f"| {pid} | {e.get('tier','quick')} | "+"<br>".join(parts)+f" | {tot_s:,} / {tot_x:,} | {wall:.0f} s |")
hdr=["| id | tier | drivers of the committed evidence (all exhaustive within the stated bound unless marked) | states / executions of the real code | wall (sum of drivers) |","|----|----|----|----|----|"]
table="\n".join(hdr+rows)+"\n"
p='/verif/DESIGN.md'; s=open(p).read()
a=s.index("### 12.4"); a2=s.index("| id |",a); b=s.index("\nThorough tiers raise",a2)
s=s[:a2]+table+s[b:]
open(p,'w').write(s)
print(table[:600])
