#!/bin/bash
# every quick tier once against /repo, one summary line each; exit 1 if any check is not clean
cd /verif; bad=0
for c in ${@:-C01 C02 C03 C04 C05 C06 C07 C08 C09 C10 C11 C12 C13 C14 C15 C16 C17 C18}; do
  s=$(date +%s); ./check $c --tier quick > /tmp/q_$c.out 2> /tmp/q_$c.err; code=$?; e=$(date +%s)
  echo "$c exit=$code wall=$((e-s))s $(grep -o 'exhaustive=[a-z]*' /tmp/q_$c.err | tail -1) $(grep -c '^VIOLATION' /tmp/q_$c.out) violations $(grep -c '^KNOWN' /tmp/q_$c.out) known"
  [ $code -ne 0 ] && bad=1
  grep -q 'exhaustive=false' /tmp/q_$c.err && { echo "   NOT EXHAUSTIVE"; grep CAP /tmp/q_$c.err | cut -c1-200; }
done
exit $bad
