#!/bin/bash
# Runs ALL quick checks against the behaviour-preserving changes in /verif/benign/<id>/ (written by
# sub-agents asked for observable changes that keep every property).  Every check must exit 0.
# usage: try_benign.sh [ids...]
cd /verif/benign
for id in ${@:-$(ls)}; do
  echo "=== $id"
  SEEDED_DIR=/verif/benign SEEDRUN_TARGET=/tmp/benignrun-target /verif/tools/try_seeded.sh $id C01 C02 C03 C04 C05 C06 C07 C08 C09 C10 C11 C12 C13 C14 C15 C16 C17 C18
done
