#!/bin/bash
# Runs checks against seeded changes WITHOUT touching /repo: a scratch worktree of /repo plus a
# copy of the harness whose path dependencies point at that worktree. (The registered commands
# in MANIFEST.json always build against /repo itself; this is a development convenience so that
# seeded runs can go on while /repo and /verif/target are in use.)
# usage: try_seeded.sh <seeded-id> <check-id>...      e.g. try_seeded.sh C01-m1 C01 C05
set -u
id=$1; shift
T=${SEEDRUN_TARGET:-/tmp/seedrun-target}
D=${SEEDED_DIR:-/verif/seeded}   # SEEDED_DIR=/verif/benign for the behaviour-preserving changes
S=/tmp/seedrun-$id
rm -rf $S; mkdir -p $S/verifroot
git -C /repo worktree prune
git -C /repo worktree add -q --detach $S/repo HEAD || exit 2
git -C /verif archive HEAD mc | tar -x -C $S   # the committed harness, not a half-edited working tree
sed -i "s|/repo/typegen|$S/repo/typegen|; s|/repo/description|$S/repo/description|" $S/mc/core/Cargo.toml
cp /verif/known_findings.json $S/verifroot/
( cd $S/repo && git apply $D/$id/patch.diff ) || { echo "patch does not apply"; exit 2; }
export CARGO_TARGET_DIR=$T CARGO_NET_OFFLINE=true VERIF_ROOT=$S/verifroot
rm -f $T/release/mc $T/release/mc-plain
( cd $S/mc && cargo build --release --offline -p mc >$S/build.log 2>&1 && cargo build --release --offline -p mc-plain >>$S/build.log 2>&1 ) || { echo "BUILD FAILED (harness does not build against the changed repo)" | tee $D/$id/detection.txt; grep -m5 -A6 "^error" $S/build.log; git -C /repo worktree remove --force $S/repo; git -C /repo worktree prune; rm -rf $S; exit 2; }
out=$D/$id/detection.txt; : > $out
for c in "$@"; do
  timeout 900 $T/release/mc check $c --tier ${TIER:-quick} > $S/$c.out 2> $S/$c.err; code=$?
  nv=$(grep -c '^VIOLATION' $S/$c.out)
  echo "check=$c tier=${TIER:-quick} exit=$code violations=$nv" | tee -a $out
  grep -m3 "signature:" $S/$c.err | sed 's/^/    /' | tee -a $out
done
git -C /repo worktree remove --force $S/repo; git -C /repo worktree prune; rm -rf $S
