#!/bin/bash
# verify_one.sh <worktree> <candidate dir>: like verify_seeded.sh, but in a given scratch worktree with its own
# (already warm) target dir, so that several candidates can be confirmed in parallel.
set -u
W=$1; d=$2
export CARGO_TARGET_DIR=$W/target CARGO_NET_OFFLINE=true
[ -f "$d/patch.diff" ] || exit 2
cd $W && git checkout -q -- . && git clean -fdq -e out -e target
demo_loc=$(python3 -c "import json,sys; print(json.load(open('$d/meta.json')).get('demo_location','typegen/tests/demo.rs'))")
case "$demo_loc" in description/*) pkg=scale-typegen-description; loc=description/tests/demo.rs;; *) pkg=scale-typegen; loc=typegen/tests/demo.rs;; esac
if ! git apply --check "$d/patch.diff" 2>/dev/null; then echo "$d: PATCH DOES NOT APPLY"; echo '{"applies":false}' > $d/verified.json; exit 1; fi
git apply "$d/patch.diff"
b1=0; cargo build --workspace --offline >/dev/null 2>&1 || b1=1
b2=0; cargo build --offline -p scale-typegen --features verif-hooks >/dev/null 2>&1 || b2=1
t=$(cargo test --workspace --no-fail-fast --offline 2>&1 | grep -E "^test result" | awk '{p+=$4; f+=$6} END {print p" "f}')
mkdir -p $(dirname $loc); cp $d/demo.rs $loc
with=0; cargo test --offline -p $pkg --test demo >$W/out/vw_with.log 2>&1 || with=1
git checkout -q -- . ; # revert patch, keep demo (untracked)
without=0; cargo test --offline -p $pkg --test demo >$W/out/vw_without.log 2>&1 || without=1
rm -f $loc
echo "$d: build=$b1/$b2 tests(pass fail)=$t demo_fails_with=$with demo_fails_without=$without"
echo "{\"applies\":true,\"build_fail\":$b1,\"hooks_build_fail\":$b2,\"tests_pass_fail\":\"$t\",\"demo_fails_with_patch\":$with,\"demo_fails_without_patch\":$without}" > $d/verified.json
