#!/bin/bash
# try_all_seeded.sh <id-prefix>... : runs the checks named in the table against each seeded change
declare -A CH=(
 [C01-m1]="C01 C05" [C01-m2]="C03 C01 C04"
 [C02-m1]="C02 C01" [C02-m2]="C02"
 [C03-m1]="C03 C04" [C03-m2]="C03 C04"
 [C04-m1]="C04 C03" [C04-m2]="C04 C05"
 [C05-m1]="C05 C02" [C05-m2]="C05 C04"
 [C06-m1]="C06" [C06-m2]="C06 C04"
 [C07-m1]="C07" [C07-m2]="C07"
 [C08-m1]="C08" [C08-m2]="C08"
 [C09-m1]="C09" [C09-m2]="C09"
 [C10-m1]="C10" [C10-m2]="C10"
 [C11-m1]="C11" [C11-m2]="C11"
 [C12-m1]="C12" [C12-m2]="C12"
 [C13-m1]="C13" [C13-m2]="C13 C15"
 [C14-m1]="C14" [C14-m2]="C14"
 [C15-m1]="C15" [C15-m2]="C15"
 [C16-m1]="C16" [C16-m2]="C16 C08"
 [C17-m1]="C17 C05" [C17-m2]="C17 C03"
 [C18-m1]="C18" [C18-m2]="C18"
 [C01-m3]="C01 C05" [C01-m4]="C03 C01" [C02-m3]="C02" [C02-m4]="C02" [C03-m3]="C03" [C03-m4]="C03 C04"
 [C05-m3]="C05" [C05-m4]="C05 C03" [C07-m3]="C07" [C07-m4]="C07" [C08-m3]="C08" [C08-m4]="C08"
 [C04-m3]="C04" [C04-m4]="C04 C05" [C06-m3]="C06" [C06-m4]="C06 C04" [C09-m3]="C09" [C09-m4]="C09"
 [C10-m3]="C10" [C10-m4]="C10" [C12-m3]="C12" [C12-m4]="C12" [C13-m3]="C13" [C13-m4]="C13"
 [C11-m3]="C11" [C11-m4]="C11" [C14-m3]="C14" [C14-m4]="C14" [C15-m3]="C15" [C15-m4]="C15"
 [C16-m3]="C16" [C16-m4]="C16 C08" [C17-m3]="C17 C04" [C17-m4]="C17 C05" [C18-m3]="C18" [C18-m4]="C18"
 [FIX-c774c1e]="C17 C05" [FIX-226f2f3]="C10 C01" [FIX-43f202f]="C05 C04" [FIX-9b7b0f8]="C03 C04"
 [FIX-d87b890]="C14" [FIX-e822f71]="C14" [FIX-eeb7108]="C14" [FIX-711dc21]="C14"
 [FIX-7f0734b]="C10 C01" [FIX-23c75cf]="C10 C01" [FIX-1bf5b7c]="C02" [FIX-9493917]="C10" [FIX-f66544b]="C03 C04" [FIX-8678bb6]="C02"
)
for id in "$@"; do
  echo "=== $id"
  checks=${CH[$id]:-}
  if [ -z "$checks" ]; then
    # default: the check of the property the change was written against
    checks=$(python3 -c "import json; print(json.load(open('/verif/seeded/$id/meta.json'))['property'])")
  fi
  /verif/tools/try_seeded.sh $id $checks
done
