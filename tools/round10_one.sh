#!/bin/bash
# round10_one.sh <prop> <lane target>: confirm the sub-agent's candidate in its own scratch worktree, store it as
# seeded/<prop>-m19 and run the property's own quick check against it (scratch worktree, never /repo).
set -u
p=$1; T=$2
I=/verif/seeded_inbox10/$p/m1
mkdir -p $I; cp /tmp/sw10/$p/out/m1/{patch.diff,demo.rs,meta.json} $I/ 2>/dev/null || { echo "$p: no candidate"; exit 1; }
/verif/tools/verify_one.sh /tmp/sw10/$p $I
python3 /verif/tools/store_seeded.py /verif/seeded_inbox10 "round 10, error/fallback paths and re-use" 19 $p
[ -d /verif/seeded/$p-m19 ] || exit 1
SEEDRUN_TARGET=$T /verif/tools/try_seeded.sh $p-m19 $p
