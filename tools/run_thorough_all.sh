#!/bin/bash
# runs every thorough tier once from a snapshot (for `vp run`), logging exit code and wall time
export VERIF_ROOT=$PWD CARGO_TARGET_DIR=/verif/target-run
for c in ${@:-C07 C09 C11 C13 C18 C12 C14 C16 C10 C06 C15 C02 C01 C05 C08 C03 C04 C17}; do
  s=$(date +%s); ./check $c --tier thorough > out_$c.txt 2> err_$c.txt; code=$?; e=$(date +%s)
  echo "$c exit=$code wall=$((e-s))s $(grep -o 'exhaustive=[a-z]*' err_$c.txt | tail -1) $(grep -c '^VIOLATION' out_$c.txt) violations $(grep -c '^KNOWN' out_$c.txt) known"
  grep "CAP" err_$c.txt | cut -c1-300
done
