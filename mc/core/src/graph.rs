//! Driver D-graph (DESIGN.md 3.5): small type graphs - struct/enum nodes in two modules, every
//! way of referring from one to another (direct, Box, Vec, Option<Box>, tuple, array, map value,
//! generic argument, compact wrapper), cycles included, grown edge by edge from a root.

use crate::drivers::*;
use crate::engine::{hash128, Driver};
use crate::spm::*;
use serde::{Deserialize, Serialize};
use serde_json::{json, Value};

#[derive(Clone, Copy, Debug, PartialEq, Eq, Hash, PartialOrd, Ord, Serialize, Deserialize)]
pub enum NodeKind {
    Struct,
    Enum,
    /// struct with one generic parameter `T` and a field `t: T`; always referenced as `Node<u8>`
    GenericStruct,
    /// `struct Wc(u32)`: the only legal target of a compact edge
    Wrapper,
    /// `enum Void {}`
    EmptyEnum,
}

#[derive(Clone, Copy, Debug, PartialEq, Eq, Hash, PartialOrd, Ord, Serialize, Deserialize)]
pub enum Label {
    Direct,
    Boxed,
    Vec,
    OptBox,
    Tuple,
    Array,
    MapVal,
    TypeArg,
    Compact,
    /// `P<B>` where `P<T> { raw: u64, m: PhantomData<T> }`: B is mentioned only as an unused generic argument
    PhantomArg,
}

pub const LABELS: [Label; 10] = [
    Label::Direct,
    Label::Boxed,
    Label::Vec,
    Label::OptBox,
    Label::Tuple,
    Label::Array,
    Label::MapVal,
    Label::TypeArg,
    Label::Compact,
    Label::PhantomArg,
];

impl Label {
    /// does the reference store its target inline (no heap indirection)?
    pub fn inline(self) -> bool {
        matches!(
            self,
            Label::Direct | Label::Tuple | Label::Array | Label::TypeArg | Label::Compact
        )
    }
}

#[derive(Clone, Debug, PartialEq, Eq, Hash, Serialize, Deserialize)]
pub struct GraphState {
    pub nodes: Vec<NodeKind>,
    /// (from, to, label) in the order the fields are declared
    pub edges: Vec<(usize, usize, Label)>,
}

pub const GD_H: usize = 0; // H<T> { g: T }
pub const GD_P: usize = 1; // P<L, T> { raw: u64, m: PhantomData<(L, T)> } with L skipped
pub const GD_FIRST: usize = 2;

impl GraphState {
    pub fn node_ty(&self, i: usize) -> Ty {
        match self.nodes[i] {
            NodeKind::GenericStruct => Ty::Named(GD_FIRST + i, vec![U8]),
            _ => Ty::Named(GD_FIRST + i, vec![]),
        }
    }

    pub fn program(&self) -> Program {
        let mut defs = vec![
            Def::strukt(&["g", "h"], "H", &["T"], named(vec![("g", Ty::Param(0))])),
            // a SKIPPED parameter first, then the marker-only one (a traversal of the type parameters must not stop
            // at the first parameter without a type)
            {
                let mut p = Def::strukt(
                    &["g", "h"],
                    "P",
                    &["L", "T"],
                    named(vec![
                        ("raw", Ty::Prim(Prim::U64)),
                        ("m", Ty::Phantom(b(Ty::Tuple(vec![Ty::Param(0), Ty::Param(1)])))),
                    ]),
                );
                p.params[0].skipped = true;
                p
            },
        ];
        for (i, k) in self.nodes.iter().enumerate() {
            let module: Vec<String> = vec!["g".into(), format!("m{}", i % 2)];
            let name = format!("T{i}");
            let mut fields: Vec<(String, Field)> = vec![];
            if *k == NodeKind::GenericStruct {
                fields.push(("t".into(), Field::new(Ty::Param(0))));
            }
            for (k_e, (from, to, l)) in self.edges.iter().enumerate() {
                if *from != i {
                    continue;
                }
                let t = self.node_ty(*to);
                let ty = match l {
                    Label::Direct => t,
                    Label::Boxed => Ty::Box(b(t)),
                    Label::Vec => Ty::Vec(b(t)),
                    Label::OptBox => Ty::Option(b(Ty::Box(b(t)))),
                    Label::Tuple => Ty::Tuple(vec![U8, t]),
                    Label::Array => Ty::Array(b(t), 2),
                    Label::MapVal => Ty::BTreeMap(b(U8), b(t)),
                    Label::TypeArg => Ty::Named(GD_H, vec![t]),
                    Label::Compact => t,
                    Label::PhantomArg => Ty::Named(GD_P, vec![Ty::Tuple(vec![]), t]),
                };
                fields.push((
                    format!("e{k_e}"),
                    Field {
                        ty,
                        compact: *l == Label::Compact,
                        docs: vec![],
                    },
                ));
            }
            let body = match k {
                NodeKind::Struct | NodeKind::GenericStruct => Body::Struct(if fields.is_empty() {
                    Fields::Unit
                } else {
                    Fields::Named(fields)
                }),
                NodeKind::Wrapper => Body::Struct(Fields::Unnamed(vec![Field::new(U32)])),
                NodeKind::EmptyEnum => Body::Enum(vec![]),
                NodeKind::Enum => Body::Enum(
                    std::iter::once(variant("Nil", Fields::Unit))
                        .chain(fields.into_iter().enumerate().map(|(j, (n, f))| {
                            if j % 2 == 0 {
                                variant(&format!("V{j}"), Fields::Unnamed(vec![f]))
                            } else {
                                variant(&format!("V{j}"), Fields::Named(vec![(n, f)]))
                            }
                        }))
                        .collect(),
                ),
            };
            defs.push(Def {
                module,
                name,
                params: if *k == NodeKind::GenericStruct {
                    vec![Param {
                        name: "T".into(),
                        skipped: false,
                    }]
                } else {
                    vec![]
                },
                body,
                docs: vec![],
                assoc: None,
            });
        }
        Program {
            defs,
            roots: vec![self.node_ty(0)],
        }
    }

    /// WF7: no cycle made of inline references only
    pub fn finite(&self) -> bool {
        let n = self.nodes.len();
        let mut colour = vec![0u8; n];
        fn dfs(s: &GraphState, v: usize, colour: &mut Vec<u8>) -> bool {
            colour[v] = 1;
            for (f, t, l) in &s.edges {
                if *f == v && l.inline() {
                    if colour[*t] == 1 {
                        return false;
                    }
                    if colour[*t] == 0 && !dfs(s, *t, colour) {
                        return false;
                    }
                }
            }
            colour[v] = 2;
            true
        }
        (0..n).all(|v| colour[v] != 0 || dfs(self, v, &mut colour))
    }

    pub fn path_of(&self, i: usize) -> String {
        format!("g::m{}::T{}", i % 2, i)
    }

    /// reachability along any edge (reflexive)
    pub fn reach(&self, from: usize) -> Vec<bool> {
        let mut seen = vec![false; self.nodes.len()];
        let mut stack = vec![from];
        while let Some(v) = stack.pop() {
            if seen[v] {
                continue;
            }
            seen[v] = true;
            for (f, t, _) in &self.edges {
                if *f == v {
                    stack.push(*t);
                }
            }
        }
        seen
    }

    pub fn cyclic_from(&self, from: usize) -> bool {
        // is a cycle reachable from `from`?
        let r = self.reach(from);
        let n = self.nodes.len();
        let mut colour = vec![0u8; n];
        fn dfs(s: &GraphState, v: usize, colour: &mut Vec<u8>) -> bool {
            colour[v] = 1;
            for (f, t, _) in &s.edges {
                if *f == v {
                    if colour[*t] == 1 {
                        return true;
                    }
                    if colour[*t] == 0 && dfs(s, *t, colour) {
                        return true;
                    }
                }
            }
            colour[v] = 2;
            false
        }
        (0..n).any(|v| r[v] && colour[v] == 0 && dfs(self, v, &mut colour))
    }
}

pub struct DGraph {
    pub max_nodes: usize,
    pub max_edges: usize,
    pub kinds: Vec<NodeKind>,
    pub labels: Vec<Label>,
    /// further start states; with `max_edges` 2 these are the cycles of length three (see `three_cycles`)
    pub extra_initial: Vec<GraphState>,
}

/// Every cycle A -> B -> C -> A over struct / enum nodes and five reference kinds (what two edges cannot show: a
/// step that is only lost transitively, a visited set that is only wrong on the third node).
pub fn three_cycles() -> Vec<GraphState> {
    let kinds = [NodeKind::Struct, NodeKind::Enum];
    let labels = [Label::Boxed, Label::Vec, Label::Direct, Label::TypeArg, Label::PhantomArg];
    let mut out = vec![];
    for a in kinds {
        for b in kinds {
            for c in kinds {
                for l0 in labels {
                    for l1 in labels {
                        for l2 in labels {
                            let g = GraphState {
                                nodes: vec![a, b, c],
                                edges: vec![(0, 1, l0), (1, 2, l1), (2, 0, l2)],
                            };
                            if g.finite() {
                                out.push(g);
                            }
                        }
                    }
                }
            }
        }
    }
    out
}

impl Driver for DGraph {
    type State = GraphState;
    fn name(&self) -> String {
        format!(
            "D-graph(nodes<={}, edges<={}, {} node kinds, {} reference kinds, cycles included{})",
            self.max_nodes,
            self.max_edges,
            self.kinds.len(),
            self.labels.len(),
            if self.extra_initial.is_empty() { String::new() } else { format!("; plus {} cycles of length three over struct/enum nodes and 5 reference kinds", self.extra_initial.len()) }
        )
    }
    fn initial(&self) -> Vec<GraphState> {
        self.kinds
            .iter()
            .filter(|k| !matches!(k, NodeKind::Wrapper | NodeKind::EmptyEnum))
            .map(|k| GraphState {
                nodes: vec![*k],
                edges: vec![],
            })
            .chain(self.extra_initial.iter().cloned())
            .collect()
    }
    /// one construction step = one new reference, to an existing node or to a fresh one
    fn successors(&self, s: &GraphState, _depth: u32) -> Vec<GraphState> {
        if s.edges.len() >= self.max_edges {
            return vec![];
        }
        let mut out = vec![];
        for from in 0..s.nodes.len() {
            if matches!(s.nodes[from], NodeKind::Wrapper | NodeKind::EmptyEnum) {
                continue;
            }
            for l in &self.labels {
                let mut targets: Vec<(usize, Option<NodeKind>)> =
                    (0..s.nodes.len()).map(|t| (t, None)).collect();
                if s.nodes.len() < self.max_nodes {
                    for k in &self.kinds {
                        targets.push((s.nodes.len(), Some(*k)));
                    }
                }
                for (t, newk) in targets {
                    let tk = newk.unwrap_or_else(|| s.nodes[t]);
                    if (*l == Label::Compact) != (tk == NodeKind::Wrapper) {
                        continue;
                    }
                    let mut n = s.clone();
                    if let Some(k) = newk {
                        n.nodes.push(k);
                    }
                    n.edges.push((from, t, *l));
                    if n.finite() {
                        out.push(n);
                    }
                }
            }
        }
        out
    }
    fn key(&self, s: &GraphState) -> Option<u128> {
        // field order is observable, so the edge list is kept in order; nodes are numbered by creation
        Some(hash128(s))
    }
    fn describe(&self, s: &GraphState) -> Value {
        json!({"program": s.program().to_source()})
    }
}

pub fn quick_graph(max_edges: usize) -> DGraph {
    DGraph {
        max_nodes: 3,
        max_edges,
        kinds: vec![
            NodeKind::Struct,
            NodeKind::Enum,
            NodeKind::GenericStruct,
            NodeKind::Wrapper,
            NodeKind::EmptyEnum,
        ],
        labels: LABELS.to_vec(),
        extra_initial: if max_edges < 3 { three_cycles() } else { vec![] },
    }
}
