//! The explorer: level-synchronous breadth-first search over a driver's state space, with
//! canonical-form de-duplication, parallel evaluation, counters, caps, and the reporting
//! pipeline (violations, replay files, known findings, evidence).

use rayon::prelude::*;
use serde_json::{json, Value};
use std::collections::hash_map::DefaultHasher;
use std::collections::{BTreeMap, BTreeSet, HashSet};
use std::hash::{Hash, Hasher};
use std::path::PathBuf;
use std::sync::Mutex;
use std::time::{Duration, Instant};

pub fn hash64<T: Hash + ?Sized>(t: &T) -> u64 {
    let mut h = DefaultHasher::new();
    t.hash(&mut h);
    h.finish()
}

pub fn hash128<T: Hash + ?Sized>(t: &T) -> u128 {
    let mut h1 = DefaultHasher::new();
    t.hash(&mut h1);
    let a = h1.finish();
    let mut h2 = DefaultHasher::new();
    0x9e3779b97f4a7c15u64.hash(&mut h2);
    t.hash(&mut h2);
    ((a as u128) << 64) | h2.finish() as u128
}

#[derive(Clone, Debug)]
pub struct Violation {
    /// signature: oracle clause + minimal locus, used to match known findings
    pub sig: String,
    /// human-readable explanation (both sides of the failing comparison)
    pub detail: String,
    /// everything needed to re-run this single case
    pub replay: Value,
    /// size measure for choosing the smallest witness
    pub size: usize,
}

/// Per-state collector handed to the check function.
#[derive(Default)]
pub struct Ctx {
    pub violations: Vec<Violation>,
    pub outcomes: Vec<u64>,
    pub executed: u64,
    pub excluded: Vec<(&'static str, u64)>,
    pub notes: Vec<(String, u64)>,
}

impl Ctx {
    pub fn outcome<T: Hash + ?Sized>(&mut self, t: &T) {
        self.outcomes.push(hash64(t));
    }
    pub fn exec(&mut self, n: u64) {
        self.executed += n;
    }
    pub fn exclude(&mut self, why: &'static str) {
        self.excluded.push((why, 1));
    }
    pub fn note(&mut self, what: impl Into<String>, n: u64) {
        self.notes.push((what.into(), n));
    }
    pub fn violation(
        &mut self,
        sig: impl Into<String>,
        detail: impl Into<String>,
        replay: Value,
        size: usize,
    ) {
        self.violations.push(Violation {
            sig: sig.into(),
            detail: detail.into(),
            replay,
            size,
        });
    }
}

pub trait Driver: Sync {
    type State: Clone + Send + Sync;
    fn name(&self) -> String;
    fn initial(&self) -> Vec<Self::State>;
    /// successors of `s`, which sits at `depth`; each with a transition label
    fn successors(&self, s: &Self::State, depth: u32) -> Vec<Self::State>;
    /// canonical key; `None` = the space is a tree (successors never merge), no seen-set needed
    fn key(&self, s: &Self::State) -> Option<u128>;
    fn describe(&self, s: &Self::State) -> Value;
}

#[derive(Clone, Debug)]
pub struct Budget {
    pub max_depth: u32,
    pub wall: Duration,
    pub max_states: u64,
}

#[derive(Default, Debug, Clone)]
pub struct Stats {
    pub driver: String,
    pub states: u64,
    pub transitions: u64,
    pub max_depth: u32,
    pub bound_completed: u32,
    pub exhaustive: bool,
    pub cap_hit: Option<String>,
    pub executed: u64,
    pub distinct_outcomes: u64,
    pub per_depth: Vec<u64>,
    pub excluded: BTreeMap<String, u64>,
    pub notes: BTreeMap<String, u64>,
    pub samples: Vec<Value>,
    pub violations: Vec<Violation>,
    pub wall_s: f64,
}

struct Shared {
    outcomes: HashSet<u64>,
    executed: u64,
    excluded: BTreeMap<String, u64>,
    notes: BTreeMap<String, u64>,
    violations: BTreeMap<String, (u64, Violation)>,
}

fn absorb(sh: &Mutex<Shared>, ctx: Ctx) {
    let mut s = sh.lock().unwrap();
    s.executed += ctx.executed;
    for o in ctx.outcomes {
        s.outcomes.insert(o);
    }
    for (k, n) in ctx.excluded {
        *s.excluded.entry(k.to_string()).or_default() += n;
    }
    for (k, n) in ctx.notes {
        *s.notes.entry(k).or_default() += n;
    }
    for v in ctx.violations {
        let e = s.violations.entry(v.sig.clone());
        match e {
            std::collections::btree_map::Entry::Vacant(x) => {
                x.insert((1, v));
            }
            std::collections::btree_map::Entry::Occupied(mut x) => {
                let (n, cur) = x.get_mut();
                *n += 1;
                if v.size < cur.size {
                    *cur = v;
                }
            }
        }
    }
}

/// resident set size of this process in GB (0 when /proc is not readable)
pub fn rss_gb() -> f64 {
    std::fs::read_to_string("/proc/self/statm")
        .ok()
        .and_then(|s| s.split_whitespace().nth(1).and_then(|p| p.parse::<f64>().ok()))
        .map(|pages| pages * 4096.0 / 1e9)
        .unwrap_or(0.0)
}

/// memory cap of one exploration process (VERIF_RSS_CAP_GB, default 9 GB): reaching it ends the exploration
/// with `exhaustive: false` and the completed depth, never with a kill from outside
pub fn rss_cap_gb() -> f64 {
    std::env::var("VERIF_RSS_CAP_GB").ok().and_then(|v| v.parse().ok()).unwrap_or(9.0)
}

/// Explore `d` breadth-first up to `budget.max_depth`, evaluating `check` on every new state.
pub fn explore<D: Driver>(
    d: &D,
    budget: &Budget,
    seed: u64,
    check: impl Fn(&D::State, &mut Ctx) + Sync,
) -> Stats {
    let start = Instant::now();
    let shared = Mutex::new(Shared {
        outcomes: HashSet::new(),
        executed: 0,
        excluded: BTreeMap::new(),
        notes: BTreeMap::new(),
        violations: BTreeMap::new(),
    });
    let mut stats = Stats {
        driver: d.name(),
        exhaustive: true,
        ..Default::default()
    };
    let mut seen: HashSet<u128> = HashSet::new();
    let mut frontier: Vec<D::State> = vec![];
    for s in d.initial() {
        match d.key(&s) {
            Some(k) => {
                if seen.insert(k) {
                    frontier.push(s)
                }
            }
            None => frontier.push(s),
        }
    }
    let mut depth = 0u32;
    let sample_every =
        |n: usize| -> usize { ((seed as usize) % n.max(1)).min(n.saturating_sub(1)) };
    loop {
        if frontier.is_empty() {
            break;
        }
        stats.states += frontier.len() as u64;
        stats.per_depth.push(frontier.len() as u64);
        stats.max_depth = depth;
        // samples: first and a seed-chosen state of each level
        if stats.samples.len() < 12 {
            stats
                .samples
                .push(json!({"depth": depth, "state": d.describe(&frontier[0])}));
            let i = sample_every(frontier.len());
            if i != 0 {
                stats
                    .samples
                    .push(json!({"depth": depth, "state": d.describe(&frontier[i])}));
            }
        }
        // evaluate the check on every state of this level (parallel)
        let timed_out = std::sync::atomic::AtomicBool::new(false);
        frontier.par_iter().for_each(|s| {
            if start.elapsed() > budget.wall {
                timed_out.store(true, std::sync::atomic::Ordering::Relaxed);
                return;
            }
            let mut ctx = Ctx::default();
            check(s, &mut ctx);
            absorb(&shared, ctx);
        });
        if timed_out.load(std::sync::atomic::Ordering::Relaxed) {
            stats.exhaustive = false;
            stats.cap_hit = Some(format!(
                "wall cap {:?} hit while checking depth {depth}; depths < {depth} fully covered",
                budget.wall
            ));
            break;
        }
        stats.bound_completed = depth;
        if depth >= budget.max_depth {
            break;
        }
        // expand, in chunks: the successors of a whole level are never all in memory before de-duplication, and
        // the state cap / the memory cap stop the expansion while it is still cheap
        let mut next = vec![];
        let mut capped: Option<String> = None;
        for chunk in frontier.chunks(50_000) {
            let succs: Vec<Vec<D::State>> = chunk.par_iter().map(|s| d.successors(s, depth)).collect();
            for v in succs {
                stats.transitions += v.len() as u64;
                for s in v {
                    match d.key(&s) {
                        Some(k) => {
                            if seen.insert(k) {
                                next.push(s)
                            }
                        }
                        None => next.push(s),
                    }
                }
            }
            if stats.states + next.len() as u64 > budget.max_states {
                capped = Some(format!(
                    "state cap {} hit expanding depth {depth}; depths <= {depth} fully covered",
                    budget.max_states
                ));
                break;
            }
            let rss = rss_gb();
            if rss > rss_cap_gb() {
                capped = Some(format!(
                    "memory cap hit expanding depth {depth} (resident set {rss:.1} GB > {:.0} GB); depths <= {depth} fully covered",
                    rss_cap_gb()
                ));
                break;
            }
        }
        if let Some(c) = capped {
            stats.exhaustive = false;
            stats.cap_hit = Some(c);
            break;
        }
        frontier = next;
        depth += 1;
    }
    let sh = shared.into_inner().unwrap();
    stats.executed = sh.executed;
    stats.distinct_outcomes = sh.outcomes.len() as u64;
    stats.excluded = sh.excluded;
    stats.notes = sh.notes;
    stats.violations = sh
        .violations
        .into_iter()
        .map(|(_, (n, mut v))| {
            v.detail = format!(
                "{} ({} states fail this way; smallest witness shown)",
                v.detail, n
            );
            v
        })
        .collect();
    stats.wall_s = start.elapsed().as_secs_f64();
    stats
}

/// A plain exhaustive product enumeration presented as a one-level driver is sometimes the
/// honest description; this helper runs `check` over a vector of cases in parallel and
/// fills the same `Stats` (states = cases, transitions = cases: one construction step each).
pub fn sweep<T: Sync>(
    name: &str,
    cases: &[T],
    wall: Duration,
    describe: impl Fn(&T) -> Value,
    check: impl Fn(&T, &mut Ctx) + Sync,
) -> Stats {
    let start = Instant::now();
    let shared = Mutex::new(Shared {
        outcomes: HashSet::new(),
        executed: 0,
        excluded: BTreeMap::new(),
        notes: BTreeMap::new(),
        violations: BTreeMap::new(),
    });
    let done = std::sync::atomic::AtomicU64::new(0);
    let timed_out = std::sync::atomic::AtomicBool::new(false);
    cases.par_iter().for_each(|c| {
        if start.elapsed() > wall {
            timed_out.store(true, std::sync::atomic::Ordering::Relaxed);
            return;
        }
        let mut ctx = Ctx::default();
        check(c, &mut ctx);
        absorb(&shared, ctx);
        done.fetch_add(1, std::sync::atomic::Ordering::Relaxed);
    });
    let sh = shared.into_inner().unwrap();
    let n = done.load(std::sync::atomic::Ordering::Relaxed);
    let capped = timed_out.load(std::sync::atomic::Ordering::Relaxed);
    Stats {
        driver: name.to_string(),
        states: n,
        transitions: n,
        max_depth: 1,
        bound_completed: if capped { 0 } else { 1 },
        exhaustive: !capped,
        cap_hit: if capped {
            Some(format!(
                "wall cap {wall:?} hit after {n} of {} cases",
                cases.len()
            ))
        } else {
            None
        },
        executed: sh.executed,
        distinct_outcomes: sh.outcomes.len() as u64,
        per_depth: vec![n],
        excluded: sh.excluded,
        notes: sh.notes,
        samples: cases.iter().take(3).map(|c| describe(c)).collect(),
        violations: sh
            .violations
            .into_iter()
            .map(|(_, (n, mut v))| {
                v.detail = format!(
                    "{} ({} cases fail this way; smallest witness shown)",
                    v.detail, n
                );
                v
            })
            .collect(),
        wall_s: start.elapsed().as_secs_f64(),
    }
}

// ---------------------------------------------------------------------------
// reporting

#[derive(Clone, Debug, serde::Deserialize)]
pub struct KnownFinding {
    pub property: String,
    /// `known` findings suppress; `fixed` entries suppress nothing
    pub status: String,
    /// matched as a prefix of the violation signature
    pub signature: String,
    pub what: String,
    #[serde(default)]
    pub commit: Option<String>,
}

pub fn verif_root() -> PathBuf {
    std::env::var("VERIF_ROOT")
        .map(PathBuf::from)
        .unwrap_or_else(|_| PathBuf::from("/verif"))
}

pub fn load_known_findings() -> Vec<KnownFinding> {
    let p = verif_root().join("known_findings.json");
    match std::fs::read_to_string(&p) {
        Ok(s) => serde_json::from_str(&s).unwrap_or_else(|e| {
            eprintln!("machinery error: {} does not parse: {e}", p.display());
            std::process::exit(2)
        }),
        Err(_) => vec![],
    }
}

pub struct Report {
    pub property: String,
    pub tier: String,
    pub seed: u64,
    pub level: String,
    pub drivers: Vec<Stats>,
    pub assumptions: Vec<String>,
    pub extra: BTreeMap<String, Value>,
    pub started: Instant,
}

impl Report {
    pub fn new(property: &str, tier: &str, seed: u64, level: &str) -> Report {
        Report {
            property: property.into(),
            tier: tier.into(),
            seed,
            level: level.into(),
            drivers: vec![],
            assumptions: vec![],
            extra: BTreeMap::new(),
            started: Instant::now(),
        }
    }

    pub fn add(&mut self, s: Stats) {
        eprintln!(
            "[{}] driver {}: states={} transitions={} depth={} executed={} outcomes={} violations(sigs)={} exhaustive={} {:.1}s{}",
            self.property,
            s.driver,
            s.states,
            s.transitions,
            s.max_depth,
            s.executed,
            s.distinct_outcomes,
            s.violations.len(),
            s.exhaustive,
            s.wall_s,
            s.cap_hit.as_ref().map(|c| format!(" CAP: {c}")).unwrap_or_default()
        );
        self.drivers.push(s);
    }

    /// Write evidence, replay files; print KNOWN-FINDING / VIOLATION lines; return exit code.
    pub fn finish(self) -> i32 {
        let root = verif_root();
        let known = load_known_findings();
        let mut unlisted: Vec<&Violation> = vec![];
        let mut listed: BTreeMap<String, (usize, String)> = BTreeMap::new();
        for d in &self.drivers {
            for v in &d.violations {
                let m = known.iter().find(|k| {
                    k.property == self.property
                        && k.status == "known"
                        && v.sig.starts_with(&k.signature)
                });
                match m {
                    Some(k) => {
                        let e = listed
                            .entry(k.signature.clone())
                            .or_insert((0, k.what.clone()));
                        e.0 += 1;
                    }
                    None => unlisted.push(v),
                }
            }
        }
        for (sig, (n, what)) in &listed {
            println!(
                "KNOWN-FINDING: property={} {} [signature {sig}; {n} violation signature(s) matched]",
                self.property, what
            );
        }
        let replay_dir = root.join("replays").join(&self.property);
        let mut violation_count = 0;
        let mut seen_files = BTreeSet::new();
        for v in &unlisted {
            violation_count += 1;
            let _ = std::fs::create_dir_all(&replay_dir);
            let fp = format!("{:016x}", hash64(&v.sig));
            let path = replay_dir.join(format!("{fp}.json"));
            if seen_files.insert(path.clone()) {
                let body = json!({
                    "property": self.property,
                    "signature": v.sig,
                    "detail": v.detail,
                    "replay": v.replay,
                });
                let _ = std::fs::write(&path, serde_json::to_string_pretty(&body).unwrap());
            }
            println!(
                "VIOLATION property={} replay={}",
                self.property,
                path.display()
            );
            eprintln!("  signature: {}\n  {}", v.sig, v.detail);
        }
        // evidence
        let states: u64 = self.drivers.iter().map(|d| d.states).sum();
        let transitions: u64 = self.drivers.iter().map(|d| d.transitions).sum();
        let executed: u64 = self.drivers.iter().map(|d| d.executed).sum();
        let outcomes: u64 = self.drivers.iter().map(|d| d.distinct_outcomes).sum();
        let exhaustive = self.drivers.iter().all(|d| d.exhaustive);
        let mut samples: Vec<Value> = vec![];
        for d in &self.drivers {
            for s in d.samples.iter().take(3) {
                samples.push(json!({"driver": d.driver, "case": s}));
            }
        }
        let per_driver: Vec<Value> = self
            .drivers
            .iter()
            .map(|d| {
                json!({
                    "driver": d.driver, "states": d.states, "transitions": d.transitions,
                    "max_depth": d.max_depth, "bound_completed": d.bound_completed,
                    "exhaustive": d.exhaustive, "cap_hit": d.cap_hit,
                    "impl_executions": d.executed, "distinct_outcomes": d.distinct_outcomes,
                    "states_per_depth": d.per_depth, "excluded_by_precondition": d.excluded,
                    "notes": d.notes, "wall_s": d.wall_s,
                    "violation_signatures": d.violations.iter().map(|v| v.sig.clone()).collect::<Vec<_>>(),
                })
            })
            .collect();
        let mut coverage = serde_json::Map::new();
        if self.level == "fault_enumeration" {
            coverage.insert("evaluations".into(), json!(executed.max(states)));
            coverage.insert("distinct_nontrivial".into(), json!(outcomes));
            coverage.insert(
                "rule".into(),
                self.extra.get("rule").cloned().unwrap_or(json!(
                    "every single fault of each kind at every site of every base registry is one evaluation; \
                     distinct = distinct (fault kind, site class, API, outcome) tuples observed"
                )),
            );
        }
        coverage.insert("states".into(), json!(states));
        coverage.insert("transitions".into(), json!(transitions.max(1)));
        coverage.insert("traces_validated_against_impl".into(), json!(executed));
        coverage.insert("distinct_outcomes".into(), json!(outcomes));
        coverage.insert("exhaustive".into(), json!(exhaustive));
        coverage.insert("samples".into(), json!(samples));
        coverage.insert("drivers".into(), json!(per_driver));
        coverage.insert(
            "known_findings_matched".into(),
            json!(listed
                .iter()
                .map(|(k, (n, w))| json!({"signature": k, "count": n, "what": w}))
                .collect::<Vec<_>>()),
        );
        for (k, v) in &self.extra {
            if k != "rule" {
                coverage.insert(k.clone(), v.clone());
            }
        }
        let ev = json!({
            "property_id": self.property,
            "tier": self.tier,
            "seed": self.seed,
            "level": self.level,
            "coverage": coverage,
            "assumptions": self.assumptions,
            "wall_s": self.started.elapsed().as_secs_f64(),
            "violations": violation_count,
        });
        let evdir = root.join("evidence");
        let _ = std::fs::create_dir_all(&evdir);
        let evpath = evdir.join(format!("{}.json", self.property));
        if let Err(e) = std::fs::write(&evpath, serde_json::to_string_pretty(&ev).unwrap()) {
            eprintln!(
                "machinery error: cannot write evidence {}: {e}",
                evpath.display()
            );
            return 2;
        }
        eprintln!(
            "[{}] total: states={states} transitions={transitions} impl_executions={executed} exhaustive={exhaustive} violations={violation_count} known={} wall={:.1}s",
            self.property,
            listed.len(),
            self.started.elapsed().as_secs_f64()
        );
        if violation_count > 0 {
            1
        } else {
            0
        }
    }
}

pub fn tier_and_seed(args: &[String]) -> (String, u64) {
    let mut tier = std::env::var("VERIF_TIER").unwrap_or_else(|_| "quick".into());
    let mut i = 0;
    while i < args.len() {
        if args[i] == "--tier" && i + 1 < args.len() {
            tier = args[i + 1].clone();
        }
        i += 1;
    }
    let seed = std::env::var("VERIF_SEED")
        .ok()
        .and_then(|s| s.parse::<u64>().ok())
        .unwrap_or(0);
    (tier, seed)
}

// ---------------------------------------------------------------------------
// crash isolation: evaluate states in worker subprocesses (DESIGN.md 2.1)

#[derive(serde::Serialize, serde::Deserialize, Default)]
pub struct CtxOut {
    pub violations: Vec<(String, String, Value, usize)>,
    pub outcomes: Vec<u64>,
    pub executed: u64,
    pub excluded: Vec<(String, u64)>,
    pub notes: Vec<(String, u64)>,
}

impl CtxOut {
    pub fn from_ctx(c: Ctx) -> CtxOut {
        CtxOut {
            violations: c
                .violations
                .into_iter()
                .map(|v| (v.sig, v.detail, v.replay, v.size))
                .collect(),
            outcomes: c.outcomes,
            executed: c.executed,
            excluded: c
                .excluded
                .into_iter()
                .map(|(k, n)| (k.to_string(), n))
                .collect(),
            notes: c.notes,
        }
    }
}

/// Worker side: read one JSON state per line from stdin; before each state print `B <idx>`, after
/// it `R <idx> <CtxOut json>`.
pub fn worker_loop(check: impl Fn(&Value, &mut Ctx)) {
    use std::io::{BufRead, Write};
    let stdin = std::io::stdin();
    let stdout = std::io::stdout();
    for (i, line) in stdin.lock().lines().enumerate() {
        let Ok(line) = line else { break };
        if line.trim().is_empty() {
            continue;
        }
        let state: Value = match serde_json::from_str(&line) {
            Ok(v) => v,
            Err(e) => {
                eprintln!("worker: bad state line: {e}");
                std::process::exit(3)
            }
        };
        {
            let mut o = stdout.lock();
            let _ = writeln!(o, "B {i}");
            let _ = o.flush();
        }
        let mut ctx = Ctx::default();
        check(&state, &mut ctx);
        let out = CtxOut::from_ctx(ctx);
        let mut o = stdout.lock();
        let _ = writeln!(o, "R {i} {}", serde_json::to_string(&out).unwrap());
        let _ = o.flush();
    }
}

/// Parent side: evaluate `states` with `workers` subprocesses (`<this exe> worker <name>`), each fed
/// batches of `batch` states. A worker that dies or stays silent longer than `per_state_timeout`
/// identifies the state it was working on; that state becomes a violation (`crash_sig`) and the
/// rest of its batch is given to a fresh worker.
pub fn isolated_sweep(
    name: &str,
    worker_name: &str,
    states: &[String],
    batch: usize,
    wall: Duration,
    per_state_timeout: Duration,
    crash_prefix: &str,
) -> Stats {
    use std::io::{BufRead, BufReader, Write};
    use std::process::{Command, Stdio};
    let start = Instant::now();
    let exe = std::env::current_exe().expect("current exe");
    let shared = Mutex::new(Shared {
        outcomes: HashSet::new(),
        executed: 0,
        excluded: BTreeMap::new(),
        notes: BTreeMap::new(),
        violations: BTreeMap::new(),
    });
    let done = std::sync::atomic::AtomicU64::new(0);
    let capped = std::sync::atomic::AtomicBool::new(false);
    // states are compact JSON lines (a serde_json::Value tree per state costs ~10x the memory)
    let chunks: Vec<&[String]> = states.chunks(batch.max(1)).collect();
    chunks.par_iter().for_each(|chunk| {
        let mut offset = 0usize;
        while offset < chunk.len() {
            if start.elapsed() > wall {
                capped.store(true, std::sync::atomic::Ordering::Relaxed);
                return;
            }
            let rest = &chunk[offset..];
            let mut child = match Command::new(&exe)
                .arg("worker")
                .arg(worker_name)
                .env("VERIF_ROOT", verif_root())
                .stdin(Stdio::piped())
                .stdout(Stdio::piped())
                .stderr(Stdio::null())
                .spawn()
            {
                Ok(c) => c,
                Err(e) => {
                    eprintln!("machinery error: cannot spawn worker: {e}");
                    std::process::exit(2)
                }
            };
            let mut stdin = child.stdin.take().unwrap();
            let payload: String = rest.iter().map(|s| format!("{s}\n")).collect();
            let writer = std::thread::spawn(move || {
                let _ = stdin.write_all(payload.as_bytes());
            });
            let stdout = child.stdout.take().unwrap();
            let (tx, rx) = std::sync::mpsc::channel::<String>();
            let reader = std::thread::spawn(move || {
                for line in BufReader::new(stdout).lines() {
                    match line {
                        Ok(l) => {
                            if tx.send(l).is_err() {
                                break;
                            }
                        }
                        Err(_) => break,
                    }
                }
            });
            let mut current: Option<usize> = None;
            let mut finished = 0usize;
            let mut timed_out = false;
            loop {
                match rx.recv_timeout(per_state_timeout) {
                    Ok(l) => {
                        if let Some(i) = l.strip_prefix("B ") {
                            current = i.trim().parse().ok();
                        } else if let Some(r) = l.strip_prefix("R ") {
                            let (i, body) = r.split_once(' ').unwrap_or((r, "{}"));
                            let _: usize = i.parse().unwrap_or(0);
                            match serde_json::from_str::<CtxOut>(body) {
                                Ok(o) => {
                                    let mut ctx = Ctx::default();
                                    ctx.executed = o.executed;
                                    ctx.outcomes = o.outcomes;
                                    ctx.notes = o.notes;
                                    for (k, n) in o.excluded {
                                        ctx.notes.push((format!("excluded: {k}"), n));
                                    }
                                    for (sig, detail, replay, size) in o.violations {
                                        ctx.violation(sig, detail, replay, size);
                                    }
                                    absorb(&shared, ctx);
                                }
                                Err(e) => {
                                    eprintln!("machinery error: worker result does not parse: {e}");
                                    std::process::exit(2)
                                }
                            }
                            finished += 1;
                            current = None;
                            done.fetch_add(1, std::sync::atomic::Ordering::Relaxed);
                        }
                    }
                    Err(std::sync::mpsc::RecvTimeoutError::Timeout) => {
                        timed_out = true;
                        let _ = child.kill();
                        break;
                    }
                    Err(std::sync::mpsc::RecvTimeoutError::Disconnected) => break,
                }
            }
            let status = child.wait();
            let _ = writer.join();
            let _ = reader.join();
            if finished == rest.len() {
                break;
            }
            // the worker died (or was killed) while working on `current`
            let culprit = current.unwrap_or(finished);
            let how = if timed_out {
                format!("no result within {per_state_timeout:?} (non-termination?)")
            } else {
                format!("worker process died: {:?}", status.map(|s| s.to_string()))
            };
            let mut ctx = Ctx::default();
            let st = &rest[culprit.min(rest.len() - 1)];
            let st_json: Value = serde_json::from_str(st).unwrap_or(Value::Null);
            ctx.violation(
                format!(
                    "{crash_prefix}/{}",
                    if timed_out { "no-termination" } else { "crash" }
                ),
                format!(
                    "{how} while evaluating this state (stack overflow, abort or endless loop)"
                ),
                json!({"check": worker_name, "state": st_json}),
                st.len(),
            );
            absorb(&shared, ctx);
            done.fetch_add(1, std::sync::atomic::Ordering::Relaxed);
            offset += culprit + 1;
        }
    });
    let sh = shared.into_inner().unwrap();
    let n = done.load(std::sync::atomic::Ordering::Relaxed);
    let capped = capped.load(std::sync::atomic::Ordering::Relaxed);
    Stats {
        driver: name.to_string(),
        states: n,
        transitions: n,
        max_depth: 1,
        bound_completed: if capped { 0 } else { 1 },
        exhaustive: !capped,
        cap_hit: if capped {
            Some(format!(
                "wall cap {wall:?} hit after {n} of {} states",
                states.len()
            ))
        } else {
            None
        },
        executed: sh.executed,
        distinct_outcomes: sh.outcomes.len() as u64,
        per_depth: vec![n],
        excluded: sh.excluded,
        notes: sh.notes,
        samples: states
            .iter()
            .take(3)
            .filter_map(|s| serde_json::from_str(s).ok())
            .collect(),
        violations: sh
            .violations
            .into_iter()
            .map(|(_, (n, mut v))| {
                v.detail = format!(
                    "{} ({} states fail this way; smallest witness shown)",
                    v.detail, n
                );
                v
            })
            .collect(),
        wall_s: start.elapsed().as_secs_f64(),
    }
}

/// enumerate all states of a driver up to `max_depth` without evaluating anything
pub fn enumerate<D: Driver>(
    d: &D,
    max_depth: u32,
    max_states: usize,
) -> (Vec<(u32, D::State)>, u64, bool) {
    let mut seen: HashSet<u128> = HashSet::new();
    let mut all = vec![];
    let mut frontier: Vec<D::State> = vec![];
    let mut transitions = 0u64;
    for s in d.initial() {
        if d.key(&s).map(|k| seen.insert(k)).unwrap_or(true) {
            frontier.push(s);
        }
    }
    let mut depth = 0;
    loop {
        for s in &frontier {
            all.push((depth, s.clone()));
        }
        if depth >= max_depth || frontier.is_empty() {
            break;
        }
        let succs: Vec<Vec<D::State>> = frontier
            .par_iter()
            .map(|s| d.successors(s, depth))
            .collect();
        let mut next = vec![];
        for v in succs {
            transitions += v.len() as u64;
            for s in v {
                if d.key(&s).map(|k| seen.insert(k)).unwrap_or(true) {
                    next.push(s);
                }
            }
        }
        if all.len() + next.len() > max_states {
            return (all, transitions, false);
        }
        frontier = next;
        depth += 1;
    }
    (all, transitions, true)
}
