//! Conformance corpus: real Rust definitions with the real `TypeInfo` derive.
//! This file is compiled (so real scale-info produces registries) AND read as text and
//! converted to SPM; `elaborate(spm)` must equal the real registry for every root.
#![allow(dead_code, unused_imports)]

use bitvec::order::{Lsb0, Msb0};
use bitvec::vec::BitVec;
use core::marker::PhantomData;
use core::num::{NonZeroI128, NonZeroI16, NonZeroI32, NonZeroI64, NonZeroI8};
use core::num::{NonZeroU128, NonZeroU16, NonZeroU32, NonZeroU64, NonZeroU8};
use core::ops::{Range, RangeInclusive};
use core::time::Duration;
use parity_scale_codec::Compact;
use scale_info::TypeInfo;
use std::borrow::Cow;
use std::collections::{BTreeMap, BTreeSet, BinaryHeap, VecDeque};

pub trait Config {
    type Inner;
}

/// A unit struct.
#[derive(TypeInfo)]
pub struct Unit;

#[derive(TypeInfo)]
pub struct Prims {
    pub a: bool,
    pub b: char,
    pub c: String,
    pub d: u8,
    pub e: u16,
    pub f: u32,
    pub g: u64,
    pub h: u128,
    pub i: i8,
    pub j: i16,
    pub k: i32,
    pub l: i64,
    pub m: i128,
}

#[derive(TypeInfo)]
pub struct Tup(pub u8, pub String);

/// Two lines
/// of docs.
#[derive(TypeInfo)]
pub enum E1 {
    /// variant doc
    A,
    B(u8),
    C {
        /// field doc
        x: u16,
        y: N,
    },
    #[codec(index = 9)]
    D,
    #[codec(index = 4)]
    F(N, N),
}

#[derive(TypeInfo, Clone)]
pub struct N {
    pub v: u32,
}

#[derive(TypeInfo, Clone)]
pub struct HC<T>(pub T);

#[derive(TypeInfo)]
pub struct Cows<T: Clone + 'static> {
    pub a: Cow<'static, N>,
    pub b: Cow<'static, HC<T>>,
    pub c: Cow<'static, Option<u32>>,
    pub d: Option<Cow<'static, HC<u8>>>,
    pub e: Cow<'static, str>,
}

#[derive(TypeInfo)]
pub struct Containers {
    pub a: Vec<u8>,
    pub b: VecDeque<u8>,
    pub c: [u16; 2],
    pub d: [N; 0],
    pub e: (u8, N),
    pub f: (u8,),
    pub g: (),
    pub h: Option<N>,
    pub i: Result<u8, String>,
    pub j: Box<N>,
    pub k: Cow<'static, str>,
    pub l: Cow<'static, [u8]>,
    pub m: BTreeMap<u8, N>,
    pub n: BTreeSet<u16>,
    pub o: BinaryHeap<u32>,
    pub p: Range<u32>,
    pub q: RangeInclusive<u64>,
    pub r: Duration,
    pub s: [u8; 32],
    pub t: Vec<Vec<u8>>,
    pub u: Option<Box<N>>,
    pub v: Vec<Box<u8>>,
    pub w: (u8, (bool, u8)),
    pub x: Box<Vec<Box<N>>>,
}

#[derive(TypeInfo)]
pub struct NonZeros(
    pub NonZeroU8,
    pub NonZeroU16,
    pub NonZeroU32,
    pub NonZeroU64,
    pub NonZeroU128,
    pub NonZeroI8,
    pub NonZeroI16,
    pub NonZeroI32,
    pub NonZeroI64,
    pub NonZeroI128,
);

#[derive(TypeInfo)]
pub struct Compacts {
    #[codec(compact)]
    pub a: u32,
    pub b: Compact<u32>,
    #[codec(compact)]
    pub c: u128,
    pub d: Compact<u8>,
    #[codec(compact)]
    pub e: W,
    pub f: Vec<Compact<u64>>,
    pub g: Compact<W>,
    pub h: Compact<()>,
}

#[derive(TypeInfo)]
pub enum CompactsE {
    A(#[codec(compact)] u16, Compact<u16>),
    B {
        #[codec(compact)]
        x: u64,
    },
}

#[derive(
    TypeInfo, parity_scale_codec::Encode, parity_scale_codec::Decode, parity_scale_codec::CompactAs,
)]
pub struct W(pub u32);

#[derive(TypeInfo)]
pub struct Bits {
    pub a: BitVec<u8, Lsb0>,
    pub b: BitVec<u16, Msb0>,
    pub c: BitVec<u32, Lsb0>,
    pub d: BitVec<u64, Msb0>,
    pub e: BitVec<u8, Msb0>,
}

/// generic over the bit store and the bit order
#[derive(TypeInfo)]
pub struct GBits<S: bitvec::store::BitStore, O: bitvec::order::BitOrder> {
    pub bits: BitVec<S, O>,
    pub n: u8,
    pub more: Vec<BitVec<S, O>>,
}

#[derive(TypeInfo)]
pub struct UsesGBits {
    pub a: GBits<u8, Lsb0>,
    pub b: GBits<u16, Msb0>,
    pub c: Lsb0,
}

#[derive(TypeInfo)]
pub struct G1<T> {
    pub a: T,
    pub b: Vec<T>,
    pub c: Option<T>,
    pub d: (T, u8),
    pub e: [T; 2],
    pub f: H<T>,
    pub g: Box<T>,
}

#[derive(TypeInfo)]
pub struct H<T>(pub T);

#[derive(TypeInfo)]
pub enum G2<T, U> {
    A(T),
    B { u: U, t: T },
    C(Vec<(T, U)>),
    D(PhantomData<T>),
    E(H<H<U>>),
}

#[derive(TypeInfo)]
pub struct UsesG {
    pub a: G1<u8>,
    pub b: G1<N>,
    pub c: G2<u8, u16>,
    pub d: G2<u16, u8>,
    pub e: H<u8>,
}

#[derive(TypeInfo)]
pub struct Ph<T, U> {
    pub a: T,
    pub m: PhantomData<U>,
}

#[derive(TypeInfo)]
pub struct PhUnit<T>(pub PhantomData<T>);

#[derive(TypeInfo)]
pub struct PhNested {
    pub a: Option<PhantomData<u8>>,
    pub b: (u8, PhantomData<u16>),
    pub c: Ph<u8, u16>,
    pub d: PhUnit<u8>,
}

#[derive(TypeInfo)]
#[scale_info(skip_type_params(T))]
pub struct Sk<T> {
    pub a: u8,
    pub m: PhantomData<T>,
}

#[derive(TypeInfo)]
#[scale_info(skip_type_params(T))]
pub struct SkAssoc<T: Config> {
    pub a: T::Inner,
    pub b: Vec<T::Inner>,
}

#[derive(TypeInfo)]
pub struct KeepAssoc<T: Config> {
    pub a: T::Inner,
    pub m: PhantomData<T>,
}

#[derive(TypeInfo)]
pub struct CfgA;
impl Config for CfgA {
    type Inner = u8;
}

#[derive(TypeInfo)]
pub struct CfgB;
impl Config for CfgB {
    type Inner = N;
}

#[derive(TypeInfo)]
pub struct UsesCfg {
    pub a: SkAssoc<CfgA>,
    pub b: SkAssoc<CfgB>,
    pub c: KeepAssoc<CfgA>,
    pub d: KeepAssoc<CfgB>,
    pub e: Sk<u8>,
    pub f: Sk<N>,
}

#[derive(TypeInfo)]
pub struct RecBox {
    pub v: u8,
    pub next: Option<Box<RecBox>>,
}

#[derive(TypeInfo)]
pub enum RecVec {
    Leaf,
    Node(Vec<RecVec>),
    Map(BTreeMap<u8, RecVec>),
    Boxed(Box<RecVec>),
}

#[derive(TypeInfo)]
pub struct RecG<T> {
    pub t: T,
    pub rest: Vec<RecG<T>>,
    pub other: Box<RecMut>,
}

#[derive(TypeInfo)]
pub struct RecMut {
    pub g: Option<Box<RecG<u8>>>,
}

pub mod inner {
    use super::*;

    #[derive(TypeInfo)]
    pub struct N {
        pub deep: deeper::D,
        pub up: super::N,
    }

    pub mod deeper {
        use super::*;

        #[derive(TypeInfo)]
        pub enum D {
            X(super::super::W),
            Y,
        }

        /// generic in a nested module
        #[derive(TypeInfo)]
        pub struct GD<T, U>(pub T, pub Vec<U>, pub [U; 3]);
    }
}

/// raw identifiers: a module, a type, fields and variants named with keywords
pub mod r#mod {
    use super::*;

    #[derive(TypeInfo)]
    #[allow(non_camel_case_types)]
    pub struct r#struct {
        pub r#type: u8,
        pub r#fn: r#enum,
    }

    #[derive(TypeInfo)]
    #[allow(non_camel_case_types)]
    pub enum r#enum {
        r#loop,
        r#while(u8),
        Plain { r#in: u16 },
    }
}

#[derive(TypeInfo)]
pub struct UsesInner {
    pub a: inner::N,
    pub b: inner::deeper::GD<u8, inner::deeper::D>,
    pub c: inner::deeper::GD<N, u8>,
}

macro_rules! roots {
    ( $( $t:ty ),* $(,)? ) => {
        pub fn real_registries() -> Vec<(&'static str, scale_info::PortableRegistry)> {
            let mut out = Vec::new();
            $(
                {
                    let mut r = scale_info::Registry::new();
                    r.register_type(&scale_info::meta_type::<$t>());
                    out.push((stringify!($t), scale_info::PortableRegistry::from(r)));
                }
            )*
            {
                // all roots in one registry, in order
                let mut r = scale_info::Registry::new();
                $( r.register_type(&scale_info::meta_type::<$t>()); )*
                out.push(("*", scale_info::PortableRegistry::from(r)));
            }
            out
        }
    };
}

roots! {
    Unit,
    Prims,
    Tup,
    E1,
    Containers,
    NonZeros,
    Compacts,
    CompactsE,
    Bits,
    Cows<u16>,
    Cows<N>,
    UsesGBits,
    GBits<u32, Msb0>,
    UsesG,
    G1<u16>,
    G2<N, Vec<u8>>,
    PhNested,
    UsesCfg,
    RecBox,
    RecVec,
    RecG<u16>,
    RecMut,
    UsesInner,
    r#mod::r#struct,
    inner::deeper::GD<(u8, u16), Option<N>>,
    Vec<N>,
    (u8, N),
    Option<u8>,
    u64,
    [u8; 4],
    BTreeMap<String, Vec<N>>,
    Compact<u128>,
    BitVec<u8, Lsb0>,
    Box<N>,
    VecDeque<Vec<Box<N>>>,
    Result<(), Option<Box<u8>>>,
    Duration,
    Cow<'static, str>,
    PhantomData<u8>,
}
