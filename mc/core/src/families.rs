//! Drivers D-generic and D-family (DESIGN.md 3.5) and the source-level reference notions they
//! come with: coincidence-freeness (CF1-CF3), "same generic definition" grouping, and the
//! expected emitted form of a source type.

use crate::drivers::*;
use crate::engine::{hash128, Driver};
use crate::settings::SettingsSpec;
use crate::spm::*;
use serde::{Deserialize, Serialize};
use serde_json::{json, Value};
use std::collections::{BTreeSet, HashSet};

// ---------------------------------------------------------------------------
// D-generic

/// Program layout of D-generic: helper defs, then the definition under test, then the host.
pub const G_N: usize = 0; // N {v: u32}
pub const G_H: usize = 1; // H<T> {g: T}   (helper_defs' `G`)
pub const G_W: usize = 2; // W(u32)
pub const G_M: usize = 3; // M {m: u16}
pub const G_CFGA: usize = 4; // unit struct, Inner = u8
pub const G_CFGB: usize = 5; // unit struct, Inner = u8 (same Inner as A)
pub const G_CFGC: usize = 6; // unit struct, Inner = N
pub const G_B: usize = 7; // B<T, S, V> {inner: Vec<T>, extra: V} with S (in the middle) skipped - the BoundedVec shape
pub const G_D: usize = 8; // the definition under test

#[derive(Clone, Copy, Debug, PartialEq, Eq, Hash, Serialize, Deserialize)]
pub enum BodyForm {
    Named,
    Unnamed,
    Enum,
}

#[derive(Clone, Copy, Debug, PartialEq, Eq, Hash, Serialize, Deserialize)]
pub enum ParamForm {
    /// <T>
    One,
    /// <T, U>
    Two,
    /// <T: Config>, skipped
    ConfigSkipped,
    /// <T: Config>, not skipped (T must then occur in a PhantomData)
    ConfigKept,
    /// <T, U> with U skipped
    TwoSecondSkipped,
    /// <S: BitStore, O: BitOrder>: the parameters are the store and the order of a bit sequence
    BitsSO,
    /// <T, U, V> (not part of `ALL_PARAM_FORMS`: explored by `three_param_states` only)
    Three,
}

#[derive(Clone, Debug, PartialEq, Eq, Hash)]
pub struct GenState {
    pub form: BodyForm,
    pub params: ParamForm,
    pub fields: Vec<Field>,
    pub insts: Vec<Vec<Ty>>,
}

pub struct DGeneric {
    pub max_fields: usize,
    pub max_insts: usize,
    pub body_forms: Vec<BodyForm>,
    pub param_forms: Vec<ParamForm>,
    /// include field types that break coincidence-freeness structurally (CF3: `Box<T>`)
    pub include_cf3: bool,
}

fn self_ty(params: ParamForm) -> Ty {
    let n = match params {
        ParamForm::One | ParamForm::ConfigSkipped | ParamForm::ConfigKept => 1,
        ParamForm::Three => 3,
        _ => 2,
    };
    Ty::Named(G_D, (0..n).map(Ty::Param).collect())
}

pub fn generic_field_alphabet(params: ParamForm, include_cf3: bool) -> Vec<Field> {
    if params == ParamForm::BitsSO {
        let bv = Ty::BitVecG(b(Ty::Param(0)), b(Ty::Param(1)));
        return vec![
            Field::new(bv.clone()),
            Field::new(Ty::Vec(b(bv.clone()))),
            Field::new(Ty::Option(b(bv))),
            Field::new(U8),
            Field::new(Ty::BitVec(Prim::U8, false)),
            Field::new(Ty::Phantom(b(Ty::Param(0)))),
            Field::new(Ty::Phantom(b(Ty::Param(1)))),
        ];
    }
    if params == ParamForm::Three {
        let (t, u, v) = (Ty::Param(0), Ty::Param(1), Ty::Param(2));
        return vec![
            t.clone(),
            u.clone(),
            v.clone(),
            Ty::Tuple(vec![t.clone(), v.clone()]),
            Ty::Vec(b(u.clone())),
            U8,
            Ty::Phantom(b(t.clone())),
            Ty::Phantom(b(u.clone())),
            Ty::Phantom(b(v.clone())),
            Ty::Phantom(b(Ty::Tuple(vec![t.clone(), v.clone()]))),
            Ty::Phantom(b(Ty::Tuple(vec![u, v]))),
        ]
        .into_iter()
        .map(Field::new)
        .collect();
    }
    let mut v: Vec<Field> = generic_type_alphabet(params, include_cf3)
        .into_iter()
        .map(Field::new)
        .collect();
    if !matches!(params, ParamForm::ConfigSkipped | ParamForm::ConfigKept) {
        // `#[codec(compact)] f: T` and an explicit `Compact<T>`, also nested
        v.push(Field::compact(Ty::Param(0)));
        v.push(Field::new(Ty::Compact(b(Ty::Param(0)))));
        v.push(Field::new(Ty::Vec(b(Ty::Compact(b(Ty::Param(0)))))));
    }
    v.push(Field::compact(U32));
    if !matches!(params, ParamForm::ConfigSkipped | ParamForm::ConfigKept) {
        v.push(Field::new(Ty::Cow(b(Ty::Named(G_H, vec![Ty::Param(0)])))));
    }
    v.push(Field::new(Ty::Cow(b(Ty::Named(G_M, vec![])))));
    v
}

pub fn generic_type_alphabet(params: ParamForm, include_cf3: bool) -> Vec<Ty> {
    let t = Ty::Param(0);
    let two = matches!(params, ParamForm::Two | ParamForm::TwoSecondSkipped);
    let mut v = vec![];
    let config = matches!(params, ParamForm::ConfigSkipped | ParamForm::ConfigKept);
    if !config {
        v.extend([
            t.clone(),
            Ty::Vec(b(t.clone())),
            Ty::Option(b(t.clone())),
            Ty::Array(b(t.clone()), 2),
            Ty::Named(G_H, vec![t.clone()]),
            Ty::Tuple(vec![t.clone(), U8]),
            Ty::BTreeMap(b(U8), b(t.clone())),
            // the parameter under a transparent wrapper BELOW field level (not CF3): the element id is the
            // parameter's id while its written name is `Box<T>`
            Ty::Vec(b(Ty::Box(b(t.clone())))),
            // a helper with a skipped parameter in the MIDDLE, the parameter before and behind it
            Ty::Named(G_B, vec![t.clone(), Ty::Named(G_M, vec![]), U8]),
            Ty::Named(G_B, vec![U8, Ty::Named(G_M, vec![]), t.clone()]),
        ]);
        if include_cf3 {
            v.push(Ty::Box(b(t.clone())));
            v.push(Ty::Cow(b(t.clone())));
        }
    }
    if params == ParamForm::Two {
        let u = Ty::Param(1);
        v.extend([
            u.clone(),
            Ty::Tuple(vec![t.clone(), u.clone()]),
            Ty::Vec(b(Ty::Named(G_H, vec![u.clone()]))),
        ]);
    }
    if config {
        v.extend([Ty::Assoc(0), Ty::Vec(b(Ty::Assoc(0)))]);
    }
    v.extend([
        Ty::Vec(b(self_ty(params))),
        Ty::Box(b(self_ty(params))),
        U8,
        Ty::Vec(b(U8)),
        Ty::Named(G_H, vec![U8]),
        Ty::Compact(b(U32)),
        Ty::Named(G_M, vec![]),
    ]);
    v.push(Ty::Phantom(b(t)));
    if two {
        v.push(Ty::Phantom(b(Ty::Param(1))));
    }
    v
}

pub fn generic_arg_alphabet(params: ParamForm) -> Vec<Vec<Ty>> {
    let base = vec![
        U8,
        U16,
        Ty::Named(G_N, vec![]),
        Ty::Named(G_M, vec![]),
        Ty::Vec(b(U8)),
        Ty::Named(G_H, vec![U8]),
        // a compact type as the argument: `W<Compact<u32>>` next to `W<u8>`
        Ty::Compact(b(U32)),
        // a transparent prelude type as the argument: the parameter's id is the `Cow`'s, not the borrowed type's
        Ty::CowStr,
    ];
    match params {
        ParamForm::BitsSO => vec![
            vec![Ty::Prim(Prim::U8), Ty::Order(false)],
            vec![Ty::Prim(Prim::U16), Ty::Order(true)],
            vec![Ty::Prim(Prim::U32), Ty::Order(false)],
            vec![Ty::Prim(Prim::U8), Ty::Order(true)],
        ],
        ParamForm::Three => vec![
            vec![U8, U16, U32],
            vec![U32, U16, U8],
            vec![U16, U32, U8],
            vec![Ty::Named(G_N, vec![]), U16, Ty::Named(G_M, vec![])],
            vec![U16, Ty::Named(G_M, vec![]), Ty::Named(G_N, vec![])],
            vec![Ty::Vec(b(U8)), Ty::Named(G_N, vec![]), U16],
        ],
        ParamForm::One => base.into_iter().map(|x| vec![x]).collect(),
        ParamForm::ConfigSkipped | ParamForm::ConfigKept => [G_CFGA, G_CFGB, G_CFGC]
            .iter()
            .map(|d| vec![Ty::Named(*d, vec![])])
            .collect(),
        ParamForm::Two | ParamForm::TwoSecondSkipped => {
            let small = [U8, U16, Ty::Named(G_N, vec![]), Ty::Vec(b(U8))];
            let mut v = vec![];
            for a in &small {
                for c in &small {
                    v.push(vec![a.clone(), c.clone()]);
                }
            }
            v
        }
    }
}

/// A slice of D-generic beyond the quick tier's depth: ONE field (the whole field alphabet), THREE instantiations
/// in every order out of four arguments, one-parameter form, every body form - what only the third same-path
/// entry shows (a comparison "against the first" that is not transitive, an index that is right twice).
pub fn three_inst_slice(include_cf3: bool) -> Vec<GenState> {
    let args = [U8, U16, Ty::Named(G_N, vec![]), Ty::Vec(b(U8))];
    let mut out = three_param_states();
    // the parameter (or the associated type) THREE levels down: under two stacked wrappers without parameters of
    // their own, under a generic inside a generic - one field, two and three instantiations
    let t = Ty::Param(0);
    let deep: Vec<Ty> = vec![
        Ty::Vec(b(Ty::Vec(b(t.clone())))),
        Ty::Option(b(Ty::Vec(b(t.clone())))),
        Ty::Vec(b(Ty::Tuple(vec![t.clone(), Ty::Prim(Prim::Bool)]))),
        Ty::Named(G_H, vec![Ty::Named(G_H, vec![t.clone()])]),
        Ty::Array(b(Ty::Array(b(t.clone()), 2)), 3),
        Ty::Option(b(Ty::Option(b(t.clone())))),
        Ty::Vec(b(Ty::Option(b(Ty::Named(G_H, vec![t.clone()]))))),
    ];
    for form in ALL_BODY_FORMS {
        for f in &deep {
            for (i, a) in args.iter().enumerate() {
                for (j, c) in args.iter().enumerate() {
                    if i == j {
                        continue;
                    }
                    out.push(GenState {
                        form,
                        params: ParamForm::One,
                        fields: vec![Field::new(f.clone())],
                        insts: vec![vec![a.clone()], vec![c.clone()]],
                    });
                    for (k, e) in args.iter().enumerate() {
                        if k != i && k != j {
                            out.push(GenState {
                                form,
                                params: ParamForm::One,
                                fields: vec![Field::new(f.clone())],
                                insts: vec![vec![a.clone()], vec![c.clone()], vec![e.clone()]],
                            });
                        }
                    }
                }
            }
        }
        let deep_assoc: Vec<Ty> = vec![
            Ty::Option(b(Ty::Option(b(Ty::Assoc(0))))),
            Ty::Vec(b(Ty::Option(b(Ty::Assoc(0))))),
            Ty::Named(G_H, vec![Ty::Named(G_H, vec![Ty::Assoc(0)])]),
            Ty::Option(b(Ty::Named(G_H, vec![Ty::Assoc(0)]))),
        ];
        for params in [ParamForm::ConfigSkipped, ParamForm::ConfigKept] {
            for f in &deep_assoc {
                for x in [G_CFGA, G_CFGB, G_CFGC] {
                    for y in [G_CFGA, G_CFGB, G_CFGC] {
                        if x == y {
                            continue;
                        }
                        out.push(GenState {
                            form,
                            params,
                            fields: vec![Field::new(f.clone())],
                            insts: vec![vec![Ty::Named(x, vec![])], vec![Ty::Named(y, vec![])]],
                        });
                    }
                }
            }
        }
    }
    for form in ALL_BODY_FORMS {
        for f in generic_field_alphabet(ParamForm::One, include_cf3) {
            for (i, a) in args.iter().enumerate() {
                for (j, c) in args.iter().enumerate() {
                    for (k, e) in args.iter().enumerate() {
                        if i == j || j == k || i == k {
                            continue;
                        }
                        out.push(GenState {
                            form,
                            params: ParamForm::One,
                            fields: vec![f.clone()],
                            insts: vec![vec![a.clone()], vec![c.clone()], vec![e.clone()]],
                        });
                    }
                }
            }
        }
    }
    out
}

/// Definitions with THREE parameters (<= 2 fields out of eleven: each parameter, two of them in one tuple, markers for
/// one and for two of them) and <= 2 of six instantiations whose arguments are numbered in different orders: a
/// used parameter between two unused ones, a marker that names two parameters, one field using the outer two.
pub fn three_param_states() -> Vec<GenState> {
    let d = DGeneric {
        max_fields: 2,
        max_insts: 2,
        include_cf3: false,
        body_forms: ALL_BODY_FORMS.to_vec(),
        param_forms: vec![ParamForm::Three],
    };
    let (all, _, _) = crate::engine::enumerate(&d, 4, 2_000_000);
    all.into_iter().map(|(_, s)| s).filter(|s| !s.insts.is_empty() && !s.fields.is_empty()).collect()
}

pub fn generic_defs() -> Vec<Def> {
    let mut defs = helper_defs("N");
    defs[G_H].name = "H".into();
    defs.push(Def::strukt(&["p", "a"], "M", &[], named(vec![("m", U16)])));
    for (name, inner) in [("CfgA", U8), ("CfgB", U8), ("CfgC", Ty::Named(G_N, vec![]))] {
        defs.push(Def {
            assoc: Some(inner),
            ..Def::strukt(&["p", "cfg"], name, &[], Fields::Unit)
        });
    }
    let mut bounded = Def::strukt(&["p", "a"], "B", &["T", "S", "V"], named(vec![("inner", Ty::Vec(b(Ty::Param(0)))), ("extra", Ty::Param(2))]));
    bounded.params[1].skipped = true;
    defs.push(bounded);
    defs
}

impl GenState {
    pub fn def(&self) -> Def {
        let params: Vec<Param> = match self.params {
            // (not named `T`: the parameters of the helper and prelude types are, and names must not be what identifies a parameter)
            ParamForm::Three => vec![("T", false), ("U", false), ("V", false)],
            ParamForm::One => vec![("Item", false)],
            ParamForm::Two => vec![("T", false), ("U", false)],
            ParamForm::BitsSO => vec![("S", false), ("O", false)],
            ParamForm::ConfigSkipped => vec![("T", true)],
            ParamForm::ConfigKept => vec![("T", false)],
            ParamForm::TwoSecondSkipped => vec![("T", false), ("U", true)],
        }
        .into_iter()
        .map(|(n, s)| Param {
            name: n.into(),
            skipped: s,
        })
        .collect();
        let names = ["a", "b", "c", "d"];
        let body = match self.form {
            BodyForm::Named => Body::Struct(if self.fields.is_empty() {
                Fields::Unit
            } else {
                Fields::Named(
                    self.fields
                        .iter()
                        .enumerate()
                        .map(|(i, t)| (names[i].to_string(), t.clone()))
                        .collect(),
                )
            }),
            BodyForm::Unnamed => Body::Struct(if self.fields.is_empty() {
                Fields::Unit
            } else {
                Fields::Unnamed(self.fields.clone())
            }),
            BodyForm::Enum => Body::Enum(
                std::iter::once(variant("Z", Fields::Unit))
                    .chain(self.fields.iter().enumerate().map(|(i, t)| {
                        if i % 2 == 0 {
                            variant(&format!("V{i}"), Fields::Unnamed(vec![t.clone()]))
                        } else {
                            variant(
                                &format!("V{i}"),
                                Fields::Named(vec![(names[i].to_string(), t.clone())]),
                            )
                        }
                    }))
                    .collect(),
            ),
        };
        Def {
            module: vec!["p".into(), "g".into()],
            name: "D".into(),
            params,
            body,
            docs: vec![],
            assoc: None,
        }
    }

    pub fn program(&self) -> Program {
        let mut defs = generic_defs();
        defs.push(self.def());
        let host = defs.len();
        defs.push(Def::strukt(
            &["p", "h"],
            "Host",
            &[],
            Fields::Named(
                self.insts
                    .iter()
                    .enumerate()
                    .map(|(i, a)| (format!("i{i}"), Field::new(Ty::Named(G_D, a.clone()))))
                    .collect(),
            ),
        ));
        Program {
            defs,
            roots: vec![Ty::Named(host, vec![])],
        }
    }

    /// Does the parameter form make sense with these fields? (a kept Config parameter must be mentioned)
    pub fn well_formed(&self) -> bool {
        match self.params {
            ParamForm::ConfigKept | ParamForm::ConfigSkipped => true,
            _ => true,
        }
    }
}

/// strict sub-expressions of `ty` (not `ty` itself)
pub fn subterms(ty: &Ty, out: &mut Vec<Ty>) {
    strict_subterms(ty, out)
}

fn strict_subterms(ty: &Ty, out: &mut Vec<Ty>) {
    let mut push = |t: &Ty, out: &mut Vec<Ty>| {
        out.push(t.clone());
        strict_subterms(t, out);
    };
    match ty {
        Ty::Named(_, a) | Ty::Tuple(a) => a.iter().for_each(|t| push(t, out)),
        Ty::Vec(t)
        | Ty::VecDeque(t)
        | Ty::Array(t, _)
        | Ty::Option(t)
        | Ty::Box(t)
        | Ty::BTreeSet(t)
        | Ty::BinaryHeap(t)
        | Ty::Range(t)
        | Ty::RangeInclusive(t)
        | Ty::Compact(t)
        | Ty::Cow(t)
        | Ty::Phantom(t) => push(t, out),
        Ty::Result(a, c) | Ty::BTreeMap(a, c) | Ty::BitVecG(a, c) => {
            push(a, out);
            push(c, out)
        }
        // a concrete bit sequence has its store and its order as components
        Ty::BitVec(p, m) => {
            out.push(Ty::Prim(*p));
            out.push(Ty::Order(*m));
        }
        _ => {}
    }
}

fn mentions_param(ty: &Ty) -> bool {
    if matches!(ty, Ty::Param(_)) {
        return true;
    }
    let mut v = vec![];
    strict_subterms(ty, &mut v);
    v.iter().any(|t| matches!(t, Ty::Param(_)))
}

fn strip_box(ty: &Ty) -> &Ty {
    match ty {
        Ty::Box(t) => strip_box(t),
        t => t,
    }
}

/// Coincidence-freeness of one instantiation of `def` with `args` (DESIGN.md 3.4), decided on the
/// source: Err(which clause).
pub fn coincidence(def: &Def, args: &[Ty], prog: &Program) -> Result<(), &'static str> {
    // interning identity of a closed type: Box erased at the top, Vec/VecDeque merged
    fn ident(t: &Ty) -> Ty {
        match strip_box(t) {
            Ty::VecDeque(x) => Ty::Vec(x.clone()),
            other => other.clone(),
        }
    }
    let arg_ids: Vec<Ty> = def
        .params
        .iter()
        .zip(args)
        .filter(|(p, _)| !p.skipped)
        .map(|(_, a)| ident(a))
        .collect();
    // CF2
    for i in 0..arg_ids.len() {
        for j in 0..i {
            if arg_ids[i] == arg_ids[j] {
                return Err("CF2: two arguments of one instantiation are the same type");
            }
        }
    }
    for f in def.all_fields() {
        // CF3: parameter directly under a transparent wrapper at field level
        if let Ty::Box(inner) | Ty::Cow(inner) = &f.ty {
            if matches!(strip_box(inner), Ty::Param(_)) {
                return Err("CF3: parameter directly under Box at field level");
            }
        }
        // CF3 below field level (`Vec<Box<T>>`): the occurrence has the argument's id unless scale-info
        // registers `Box<Arg>` apart from `Arg` - which it does exactly when Arg's own registration key is
        // not Arg itself (`Vec<_>`, `VecDeque<_>`, `String`/`str`: `Box<Vec<u8>>` is keyed by `Vec<u8>`,
        // `Vec<u8>` by `[u8]`). Then the id does not identify the parameter.
        {
            let mut subs = vec![];
            strict_subterms(&f.ty, &mut subs);
            for s in subs {
                if let Ty::Box(inner) | Ty::Cow(inner) = &s {
                    if let Ty::Param(i) = strip_box(inner) {
                        if let Some(a) = args.get(*i) {
                            if matches!(strip_box(a), Ty::Vec(_) | Ty::VecDeque(_) | Ty::Prim(Prim::Str) | Ty::CowStr | Ty::CowBytes | Ty::Cow(_)) {
                                return Err("CF3: parameter directly under Box below field level, instantiated with a type that is registered under another identity");
                            }
                        }
                    }
                }
            }
        }
        if matches!(f.ty, Ty::Phantom(_)) {
            continue;
        }
        // CF1: a closed component strictly below field level whose type is one of the arguments
        let mut subs = vec![];
        strict_subterms(&f.ty, &mut subs);
        for s in subs {
            if matches!(s, Ty::Param(_)) {
                continue;
            }
            // a component that is itself built from parameters is a parameter occurrence's context, not a coincidence,
            // unless its closed form equals an argument
            let closed = ident(&substitute(&s, args, prog));
            if arg_ids.contains(&closed) && !matches!(strip_box(&s), Ty::Param(_)) {
                return Err(
                    "CF1: an argument equals a non-parameter component nested in the definition",
                );
            }
        }
        // a field whose whole type is T::Inner or a closed type equal to an argument is distinguished by its type name: fine
    }
    Ok(())
}

impl Driver for DGeneric {
    type State = GenState;
    fn name(&self) -> String {
        format!(
            "D-generic(fields<={}, instantiations<={})",
            self.max_fields, self.max_insts
        )
    }
    fn initial(&self) -> Vec<GenState> {
        let mut v = vec![];
        for form in self.body_forms.iter().copied() {
            for params in self.param_forms.iter().copied() {
                for inst in generic_arg_alphabet(params) {
                    v.push(GenState {
                        form,
                        params,
                        fields: vec![],
                        insts: vec![inst],
                    });
                }
            }
        }
        v
    }
    fn successors(&self, s: &GenState, _depth: u32) -> Vec<GenState> {
        let mut out = vec![];
        if s.fields.len() < self.max_fields {
            for f in generic_field_alphabet(s.params, self.include_cf3) {
                let mut n = s.clone();
                n.fields.push(f);
                out.push(n);
            }
        }
        if s.insts.len() < self.max_insts {
            for a in generic_arg_alphabet(s.params) {
                if s.insts.contains(&a) {
                    continue;
                }
                let mut n = s.clone();
                n.insts.push(a);
                out.push(n);
            }
        }
        out
    }
    fn key(&self, s: &GenState) -> Option<u128> {
        // the order of instantiations is observable (registry order), so it is part of the key
        Some(hash128(s))
    }
    fn describe(&self, s: &GenState) -> Value {
        json!({"program": s.program().to_source()})
    }
}

// ---------------------------------------------------------------------------
// expected emitted form of a source type (reference printer, independent of the generator)

pub struct Expect<'a> {
    pub prog: &'a Program,
    pub settings: &'a SettingsSpec,
    /// reference substitution: (registry path segments, resolved arguments) -> emitted path, if a rule applies
    pub subst: Option<&'a (dyn Fn(&[String], &[String]) -> Option<String> + Sync)>,
}

impl<'a> Expect<'a> {
    fn alloc(&self) -> String {
        self.settings.alloc_prefix()
    }

    fn contains_box(ty: &Ty) -> bool {
        if matches!(ty, Ty::Box(_)) {
            return true;
        }
        let mut v = vec![];
        strict_subterms(ty, &mut v);
        v.iter().any(|t| matches!(t, Ty::Box(_)))
    }

    /// the type as emitted in a nested (non-field) position; `ctx` gives parameter names `_i`
    pub fn nested(&self, ty: &Ty, args: Option<&[Ty]>) -> String {
        let n = |t: &Ty| self.nested(t, args);
        let a = self.alloc();
        match ty {
            Ty::Prim(Prim::Str) | Ty::CowStr => format!("{a}::string::String"),
            Ty::Prim(p) => format!("::core::primitive::{}", p.rust_name()),
            Ty::Param(i) => format!("_{i}"),
            Ty::Assoc(i) => match args {
                Some(args) => {
                    let closed = substitute(&Ty::Assoc(*i), args, self.prog);
                    self.nested(&closed, None)
                }
                None => "?assoc".into(),
            },
            Ty::Named(d, targs) => {
                let def = &self.prog.defs[*d];
                let mut path = vec![self.settings.root.clone()];
                path.extend(def.path());
                let kept: Vec<String> = def
                    .params
                    .iter()
                    .zip(targs)
                    .filter(|(p, _)| !p.skipped)
                    .map(|(_, t)| n(t))
                    .collect();
                if let Some(sub) = self.subst {
                    if let Some(s) = sub(&def.path(), &kept) {
                        return s;
                    }
                }
                if kept.is_empty() {
                    path.join("::")
                } else {
                    format!("{}<{}>", path.join("::"), kept.join(","))
                }
            }
            Ty::Vec(t) | Ty::VecDeque(t) => format!("{a}::vec::Vec<{}>", n(t)),
            Ty::CowBytes => format!("{a}::vec::Vec<::core::primitive::u8>"),
            Ty::Array(t, k) => format!("[{};{}usize]", n(t), k),
            Ty::Tuple(ts) => format!(
                "({})",
                ts.iter()
                    .filter(|t| !matches!(t, Ty::Phantom(_)))
                    .map(|t| format!("{},", n(t)))
                    .collect::<String>()
            ),
            Ty::Option(t) => format!("::core::option::Option<{}>", n(t)),
            Ty::Result(x, y) => format!("::core::result::Result<{},{}>", n(x), n(y)),
            Ty::Box(t) | Ty::Cow(t) => n(t),
            Ty::BTreeMap(k, v) => {
                if let Some(sub) = self.subst {
                    if let Some(s) = sub(&["BTreeMap".to_string()], &[n(k), n(v)]) {
                        return s;
                    }
                }
                format!("{a}::collections::BTreeMap<{},{}>", n(k), n(v))
            }
            Ty::BTreeSet(t) => format!("{a}::collections::BTreeSet<{}>", n(t)),
            Ty::BinaryHeap(t) => format!("{a}::collections::BinaryHeap<{}>", n(t)),
            Ty::Range(t) => format!("::core::ops::Range<{}>", n(t)),
            Ty::RangeInclusive(t) => format!("::core::ops::RangeInclusive<{}>", n(t)),
            Ty::NonZero(p) => format!("::core::num::{}", p.nonzero_name()),
            Ty::Duration => "::core::time::Duration".into(),
            Ty::Compact(t) => format!(
                "{}<{}>",
                crate::settings::squash(
                    self.settings.compact_path.as_deref().unwrap_or("?compact")
                ),
                n(t)
            ),
            Ty::BitVec(store, msb) => {
                let order_src = if *msb {
                    "bitvec::order::Msb0"
                } else {
                    "bitvec::order::Lsb0"
                };
                let order = self
                    .settings
                    .substitutes
                    .iter()
                    .find(|(f, _)| f == order_src)
                    .map(|(_, t)| crate::settings::squash(t))
                    .unwrap_or_else(|| format!("{}::{}", self.settings.root, order_src));
                format!(
                    "{}<::core::primitive::{},{}>",
                    crate::settings::squash(self.settings.bits_path.as_deref().unwrap_or("?bits")),
                    store.rust_name(),
                    order
                )
            }
            Ty::Phantom(_) => "::core::marker::PhantomData<?>".into(),
            Ty::BitVecG(st, o) => format!(
                "{}<{},{}>",
                crate::settings::squash(self.settings.bits_path.as_deref().unwrap_or("?bits")),
                n(st),
                n(o)
            ),
            Ty::Order(msb) => {
                let order_src = if *msb {
                    "bitvec::order::Msb0"
                } else {
                    "bitvec::order::Lsb0"
                };
                self.settings
                    .substitutes
                    .iter()
                    .find(|(f, _)| f == order_src)
                    .map(|(_, t)| crate::settings::squash(t))
                    .unwrap_or_else(|| format!("{}::{}", self.settings.root, order_src))
            }
        }
    }

    /// (emitted field type, compact attribute expected) for a field of source type `ty`
    pub fn field(&self, f: &Field, args: Option<&[Ty]>) -> (String, bool) {
        let boxed = Self::contains_box(&f.ty);
        let (inner, compact) = match strip_box(&f.ty) {
            Ty::Compact(t) => (self.nested(t, args), true),
            t if f.compact => (self.nested(t, args), true),
            t => (self.nested(t, args), false),
        };
        // a compact field carries no Box (Box<T> is not HasCompact)
        let s = if boxed && !compact {
            format!("{}::boxed::Box<{}>", self.alloc(), inner)
        } else {
            inner
        };
        (s, compact)
    }
}

/// parameters (declared positions) mentioned by the non-phantom fields of a definition
pub fn used_params(def: &Def) -> BTreeSet<usize> {
    let mut used = BTreeSet::new();
    for f in def.all_fields() {
        if matches!(f.ty, Ty::Phantom(_)) {
            continue;
        }
        let mut subs = vec![f.ty.clone()];
        strict_subterms(&f.ty, &mut subs);
        for s in subs {
            if let Ty::Param(i) = s {
                used.insert(i);
            }
        }
    }
    used
}

// ---------------------------------------------------------------------------
// D-family

pub const F_X: usize = 0; // q::X {v: u8}
pub const F_X2: usize = 1; // q::X {v: u8}   (twin)
pub const F_Y: usize = 2; // q::Y (u16)
pub const F_Y2: usize = 3; // q::Y (u16)   (twin)
pub const F_W: usize = 4; // q::W<T> {w: T}
pub const F_Z: usize = 5; // q::Z {v: u8}
pub const F_Z2: usize = 6; // q::Z {v: u16}   (same path as Z, another shape: a second family)
pub const F_FIRST_MEMBER: usize = 7;

#[derive(Clone, Debug, PartialEq, Eq, Hash, Serialize, Deserialize)]
pub enum FamTy {
    U8,
    U16,
    X,
    X2,
    Y,
    Y2,
    OptU8,
    OptU16,
    WU8,
    WU16,
    VecX,
    VecX2,
    VecSelf,
    BoxSelf,
    Arr2U8,
    Arr3U8,
    /// W<Option<u8>> / W<Option<u16>>: the difference sits two generic levels down
    WOptU8,
    WOptU16,
    /// members of a second same-path family with two shapes
    Z,
    Z2,
    /// tuples one of which is a prefix of the other: (), (u8, u16), (u8, u16, u32)
    Tup0,
    Tup2,
    Tup3,
}

pub const FAM_ALPHABET: [FamTy; 20] = [
    FamTy::U8,
    FamTy::U16,
    FamTy::X,
    FamTy::X2,
    FamTy::Y,
    FamTy::Y2,
    FamTy::OptU8,
    FamTy::OptU16,
    FamTy::WU8,
    FamTy::WU16,
    FamTy::VecX,
    FamTy::VecX2,
    FamTy::VecSelf,
    FamTy::BoxSelf,
    FamTy::Arr2U8,
    FamTy::Arr3U8,
    FamTy::WOptU8,
    FamTy::WOptU16,
    FamTy::Z,
    FamTy::Z2,
];

pub const FAM_SMALL: [FamTy; 4] = [FamTy::X, FamTy::X2, FamTy::Y, FamTy::Y2];

impl FamTy {
    pub fn ty(&self, me: usize) -> Ty {
        match self {
            FamTy::U8 => U8,
            FamTy::U16 => U16,
            FamTy::X => Ty::Named(F_X, vec![]),
            FamTy::X2 => Ty::Named(F_X2, vec![]),
            FamTy::Y => Ty::Named(F_Y, vec![]),
            FamTy::Y2 => Ty::Named(F_Y2, vec![]),
            FamTy::OptU8 => Ty::Option(b(U8)),
            FamTy::OptU16 => Ty::Option(b(U16)),
            FamTy::WU8 => Ty::Named(F_W, vec![U8]),
            FamTy::WU16 => Ty::Named(F_W, vec![U16]),
            FamTy::VecX => Ty::Vec(b(Ty::Named(F_X, vec![]))),
            FamTy::VecX2 => Ty::Vec(b(Ty::Named(F_X2, vec![]))),
            FamTy::VecSelf => Ty::Vec(b(Ty::Named(me, vec![]))),
            FamTy::BoxSelf => Ty::Box(b(Ty::Named(me, vec![]))),
            FamTy::Arr2U8 => Ty::Array(b(U8), 2),
            FamTy::Arr3U8 => Ty::Array(b(U8), 3),
            FamTy::WOptU8 => Ty::Named(F_W, vec![Ty::Option(b(U8))]),
            FamTy::WOptU16 => Ty::Named(F_W, vec![Ty::Option(b(U16))]),
            FamTy::Z => Ty::Named(F_Z, vec![]),
            FamTy::Z2 => Ty::Named(F_Z2, vec![]),
            FamTy::Tup0 => Ty::Tuple(vec![]),
            FamTy::Tup2 => Ty::Tuple(vec![U8, U16]),
            FamTy::Tup3 => Ty::Tuple(vec![U8, U16, U32]),
        }
    }
}

#[derive(Clone, Copy, Debug, PartialEq, Eq, Hash, Serialize, Deserialize)]
pub enum MemberForm {
    NamedStruct,
    TupleStruct,
    Enum,
    /// like `Enum`, but the variant with the fields has the explicit index 7: next to an `Enum` member with the
    /// same fields the two shapes differ in nothing but a variant index
    EnumIdx,
    /// like `Enum` with a third (unit) variant `C`: next to an `Enum` member with the same fields the variants of
    /// one are a strict subset (a prefix) of the other's
    Enum3,
}

#[derive(Clone, Debug, PartialEq, Eq, Hash, Serialize, Deserialize)]
pub struct Member {
    pub form: MemberForm,
    pub fields: Vec<FamTy>,
}

#[derive(Clone, Debug, PartialEq, Eq, Hash, Serialize, Deserialize)]
pub struct FamState {
    pub members: Vec<Member>,
    /// extra neighbours under digit-suffixed names: 0 = none, 1 = an existing `Foo1`, 2 = `Foo1` and `Foo11`
    pub neighbours: u8,
    /// a component twin registered before everything else: 0 none, 1 = X', 2 = Y'
    pub lead: u8,
}

pub struct DFamily {
    pub max_members: usize,
    pub max_fields: usize,
    pub alphabet: Vec<FamTy>,
    pub forms: Vec<MemberForm>,
    pub leads: Vec<u8>,
    pub with_neighbours: bool,
}

pub const ALL_BODY_FORMS: [BodyForm; 3] = [BodyForm::Named, BodyForm::Unnamed, BodyForm::Enum];
pub const ALL_PARAM_FORMS: [ParamForm; 6] = [
    ParamForm::One,
    ParamForm::Two,
    ParamForm::ConfigSkipped,
    ParamForm::ConfigKept,
    ParamForm::TwoSecondSkipped,
    ParamForm::BitsSO,
];
pub const ALL_MEMBER_FORMS: [MemberForm; 5] = [
    MemberForm::NamedStruct,
    MemberForm::TupleStruct,
    MemberForm::Enum,
    MemberForm::EnumIdx,
    MemberForm::Enum3,
];

impl FamState {
    pub fn program(&self) -> Program {
        let mut defs = vec![
            Def::strukt(&["q"], "X", &[], named(vec![("v", U8)])),
            Def::strukt(&["q"], "X", &[], named(vec![("v", U8)])),
            Def::strukt(&["q"], "Y", &[], unnamed(vec![U16])),
            Def::strukt(&["q"], "Y", &[], unnamed(vec![U16])),
            Def::strukt(&["q"], "W", &["T"], named(vec![("w", Ty::Param(0))])),
            Def::strukt(&["q"], "Z", &[], named(vec![("v", U8)])),
            Def::strukt(&["q"], "Z", &[], named(vec![("v", U16)])),
        ];
        // make X / Y paths 2 segments: module q is the crate name here
        for d in defs.iter_mut() {
            d.module = vec!["q".into(), "c".into()];
        }
        let names = ["a", "b", "c", "d"];
        for (mi, m) in self.members.iter().enumerate() {
            let me = F_FIRST_MEMBER + mi;
            let tys: Vec<Ty> = m.fields.iter().map(|f| f.ty(me)).collect();
            let body = match m.form {
                MemberForm::NamedStruct => Body::Struct(if tys.is_empty() {
                    Fields::Unit
                } else {
                    Fields::Named(
                        tys.iter()
                            .enumerate()
                            .map(|(i, t)| (names[i].to_string(), Field::new(t.clone())))
                            .collect(),
                    )
                }),
                MemberForm::TupleStruct => Body::Struct(if tys.is_empty() {
                    Fields::Unit
                } else {
                    Fields::Unnamed(tys.iter().cloned().map(Field::new).collect())
                }),
                MemberForm::Enum => Body::Enum(vec![
                    variant("A", Fields::Unit),
                    variant(
                        "B",
                        Fields::Unnamed(tys.iter().cloned().map(Field::new).collect()),
                    ),
                ]),
                MemberForm::Enum3 => Body::Enum(vec![
                    variant("A", Fields::Unit),
                    variant("B", Fields::Unnamed(tys.iter().cloned().map(Field::new).collect())),
                    variant("C", Fields::Unit),
                ]),
                MemberForm::EnumIdx => Body::Enum(vec![
                    variant("A", Fields::Unit),
                    Variant {
                        index: Some(7),
                        ..variant(
                            "B",
                            Fields::Unnamed(tys.iter().cloned().map(Field::new).collect()),
                        )
                    },
                ]),
            };
            defs.push(Def {
                module: vec!["m".into(), "f".into()],
                name: "Foo".into(),
                params: vec![],
                body,
                docs: vec![],
                assoc: None,
            });
        }
        let mut host_fields: Vec<(String, Field)> = self
            .members
            .iter()
            .enumerate()
            .map(|(i, _)| {
                (
                    format!("m{i}"),
                    Field::new(Ty::Named(F_FIRST_MEMBER + i, vec![])),
                )
            })
            .collect();
        for k in 0..self.neighbours {
            let idx = defs.len();
            defs.push(Def::strukt(
                &["m", "f"],
                if k == 0 { "Foo1" } else { "Foo11" },
                &[],
                named(vec![("n", Ty::Prim(Prim::Bool))]),
            ));
            host_fields.push((format!("n{k}"), Field::new(Ty::Named(idx, vec![]))));
        }
        if self.neighbours >= 1 {
            // two instantiations of a PRELUDE generic whose shapes the comparison would tell apart (K == V in one
            // of them): types without a module path are not the de-duplication's business
            host_fields.push(("k0".into(), Field::new(Ty::BTreeMap(b(U8), b(U8)))));
            host_fields.push(("k1".into(), Field::new(Ty::BTreeMap(b(U8), b(U16)))));
        }
        let host = defs.len();
        defs.push(Def::strukt(
            &["m", "h"],
            "Host",
            &[],
            Fields::Named(host_fields),
        ));
        let mut roots = vec![];
        match self.lead {
            1 => roots.push(Ty::Named(F_X2, vec![])),
            2 => roots.push(Ty::Named(F_Y2, vec![])),
            _ => {}
        }
        roots.push(Ty::Named(host, vec![]));
        Program { defs, roots }
    }
}

impl Driver for DFamily {
    type State = FamState;
    fn name(&self) -> String {
        format!(
            "D-family(members<={}, fields<={}, alphabet of {} field types, {} forms, {} lead orders, neighbours={})",
            self.max_members,
            self.max_fields,
            self.alphabet.len(),
            self.forms.len(),
            self.leads.len(),
            self.with_neighbours
        )
    }
    fn initial(&self) -> Vec<FamState> {
        let mut v = vec![];
        for form in self.forms.iter().copied() {
            for lead in self.leads.iter().copied() {
                // digit-suffixed neighbours are combined with the plain lead order only
                for neighbours in 0..(if self.with_neighbours && lead == 0 {
                    3u8
                } else {
                    1
                }) {
                    v.push(FamState {
                        members: vec![Member {
                            form,
                            fields: vec![],
                        }],
                        neighbours,
                        lead,
                    });
                }
            }
        }
        v
    }
    fn successors(&self, s: &FamState, _depth: u32) -> Vec<FamState> {
        let mut out = vec![];
        let last = s.members.last().unwrap();
        // add a field to the last member (members are completed one after the other)
        if last.fields.len() < self.max_fields {
            for f in &self.alphabet {
                let mut n = s.clone();
                n.members.last_mut().unwrap().fields.push(f.clone());
                out.push(n);
            }
        }
        // start a new member
        if s.members.len() < self.max_members {
            for form in self.forms.iter().copied() {
                // different forms under one path are trivially different shapes: keep one mixed pair only
                if form != s.members[0].form && !(s.members.len() == 1 && last.fields.len() == 1) {
                    continue;
                }
                let mut n = s.clone();
                n.members.push(Member {
                    form,
                    fields: vec![],
                });
                out.push(n);
            }
        }
        out
    }
    fn key(&self, s: &FamState) -> Option<u128> {
        Some(hash128(s))
    }
    fn describe(&self, s: &FamState) -> Value {
        json!({"program": s.program().to_source()})
    }
}

// ---------------------------------------------------------------------------
// reference grouping: "same (generic) definition" decided on the source

/// Are two definitions the same definition up to twins (same path, same parameters, same body
/// where referenced user definitions are again equivalent)? Coinductive.
pub fn defs_equiv(
    prog: &Program,
    a: usize,
    b_: usize,
    assumed: &mut HashSet<(usize, usize)>,
) -> bool {
    if a == b_ {
        return true;
    }
    if !assumed.insert((a, b_)) {
        return true;
    }
    let (da, db) = (&prog.defs[a], &prog.defs[b_]);
    if da.path() != db.path() || da.params != db.params || da.assoc.is_some() != db.assoc.is_some()
    {
        return false;
    }
    let feq = |x: &Fields, y: &Fields, assumed: &mut HashSet<(usize, usize)>| -> bool {
        match (x, y) {
            (Fields::Unit, Fields::Unit) => true,
            (Fields::Named(p), Fields::Named(q)) => {
                p.len() == q.len()
                    && p.iter().zip(q).all(|((n1, f1), (n2, f2))| {
                        n1 == n2
                            && f1.compact == f2.compact
                            && tys_equiv(prog, &f1.ty, &f2.ty, assumed)
                    })
            }
            (Fields::Unnamed(p), Fields::Unnamed(q)) => {
                p.len() == q.len()
                    && p.iter().zip(q).all(|(f1, f2)| {
                        f1.compact == f2.compact && tys_equiv(prog, &f1.ty, &f2.ty, assumed)
                    })
            }
            _ => false,
        }
    };
    match (&da.body, &db.body) {
        (Body::Struct(x), Body::Struct(y)) => feq(x, y, assumed),
        (Body::Enum(x), Body::Enum(y)) => {
            // the effective index: explicit, else the position
            x.len() == y.len()
                && x.iter().zip(y).enumerate().all(|(i, (v1, v2))| {
                    v1.name == v2.name
                        && v1.index.unwrap_or(i as u8) == v2.index.unwrap_or(i as u8)
                        && feq(&v1.fields, &v2.fields, assumed)
                })
        }
        _ => false,
    }
}

pub fn tys_equiv(prog: &Program, a: &Ty, b_: &Ty, assumed: &mut HashSet<(usize, usize)>) -> bool {
    use Ty::*;
    match (strip_box(a), strip_box(b_)) {
        (Named(d1, a1), Named(d2, a2)) => {
            defs_equiv(prog, *d1, *d2, assumed)
                && a1.len() == a2.len()
                && a1
                    .iter()
                    .zip(a2)
                    .all(|(x, y)| tys_equiv(prog, x, y, assumed))
        }
        (Vec(x) | VecDeque(x), Vec(y) | VecDeque(y)) => tys_equiv(prog, x, y, assumed),
        (Array(x, n), Array(y, m)) => n == m && tys_equiv(prog, x, y, assumed),
        (Tuple(x), Tuple(y)) => {
            x.len() == y.len() && x.iter().zip(y).all(|(p, q)| tys_equiv(prog, p, q, assumed))
        }
        (Option(x), Option(y))
        | (BTreeSet(x), BTreeSet(y))
        | (BinaryHeap(x), BinaryHeap(y))
        | (Range(x), Range(y))
        | (RangeInclusive(x), RangeInclusive(y))
        | (Cow(x), Cow(y))
        | (Compact(x), Compact(y)) => tys_equiv(prog, x, y, assumed),
        (Result(x1, x2), Result(y1, y2))
        | (BTreeMap(x1, x2), BTreeMap(y1, y2))
        | (BitVecG(x1, x2), BitVecG(y1, y2)) => {
            tys_equiv(prog, x1, y1, assumed) && tys_equiv(prog, x2, y2, assumed)
        }
        (Phantom(_), Phantom(_)) => true,
        (x, y) => x == y,
    }
}

/// all D-generic / D-family explorations used by checks that share these drivers
pub fn settings_small() -> Vec<(String, SettingsSpec)> {
    let base = SettingsSpec::faithful();
    let mut r = base.clone();
    r.root = "r".into();
    r.alloc = Some("::alloc".into());
    vec![
        ("faithful".into(), base),
        ("root=r,alloc=::alloc".into(), r),
    ]
}
