//! Compile farm (DESIGN.md 4.4): emitted modules are written, one per line, into a throw-away
//! cargo workspace and type-checked by the real `rustc` with the real parity-scale-codec derives.

use crate::settings::SettingsSpec;
use serde_json::Value;
use std::collections::BTreeMap;
use std::path::PathBuf;
use std::process::Command;

/// The supported compile profile: codec derives + attributes, compact / compact-as / bits paths,
/// bit-order markers substituted, ordered collections of generated types substituted by sequences
/// (their codec impls need `Ord`, which generated types do not derive).
pub fn compile_profile() -> SettingsSpec {
    SettingsSpec {
        root: "types".into(),
        alloc: None,
        docs: true,
        codec_attrs: true,
        compact_path: Some("::parity_scale_codec::Compact".into()),
        bits_path: Some("::verif_support::DecodedBits".into()),
        compact_as: Some("::parity_scale_codec::CompactAs".into()),
        derives_all: vec![
            "::parity_scale_codec::Encode".into(),
            "::parity_scale_codec::Decode".into(),
        ],
        attrs_all: vec![],
        derives_for: vec![],
        attrs_for: vec![],
        substitutes: vec![
            ("bitvec::order::Lsb0".into(), "::verif_support::Lsb0".into()),
            ("bitvec::order::Msb0".into(), "::verif_support::Msb0".into()),
            ("BTreeSet<T>".into(), "::verif_support::SeqOf<T>".into()),
            ("BinaryHeap<T>".into(), "::verif_support::SeqOf<T>".into()),
            (
                "BTreeMap<K, V>".into(),
                "::verif_support::MapOf<K, V>".into(),
            ),
        ],
    }
}

const SUPPORT: &str = r#"
//! support types of the compile profile
use parity_scale_codec::{Decode, Encode};
#[derive(Encode, Decode)]
pub struct Lsb0;
#[derive(Encode, Decode)]
pub struct Msb0;
#[derive(Encode, Decode)]
pub struct SeqOf<T>(pub Vec<T>);
#[derive(Encode, Decode)]
pub struct MapOf<K, V>(pub Vec<(K, V)>);
pub struct DecodedBits<Store, Order>(pub Vec<u8>, pub core::marker::PhantomData<(Store, Order)>);
impl<S, O> Encode for DecodedBits<S, O> {
    fn encode_to<T: parity_scale_codec::Output + ?Sized>(&self, dest: &mut T) { self.0.encode_to(dest) }
}
impl<S, O> Decode for DecodedBits<S, O> {
    fn decode<I: parity_scale_codec::Input>(input: &mut I) -> Result<Self, parity_scale_codec::Error> {
        Ok(DecodedBits(Vec::<u8>::decode(input)?, core::marker::PhantomData))
    }
}
"#;

pub struct FarmCase {
    pub label: String,
    pub replay: Value,
    pub tokens: String,
}

pub struct FarmError {
    pub case: usize,
    pub code: String,
    pub message: String,
}

pub struct FarmResult {
    pub compiled: usize,
    pub crates: usize,
    pub errors: Vec<FarmError>,
    pub wall_s: f64,
}

fn scratch_dir() -> PathBuf {
    let base = std::env::var("VERIF_SCRATCH").unwrap_or_else(|_| "/var/tmp".into());
    PathBuf::from(base).join(format!("verif-cc.{}", std::process::id()))
}

/// Type-check every case with rustc. Err = machinery failure (never a verdict).
pub fn compile(cases: &[FarmCase], n_crates: usize) -> Result<FarmResult, String> {
    let start = std::time::Instant::now();
    let dir = scratch_dir();
    let _ = std::fs::remove_dir_all(&dir);
    std::fs::create_dir_all(&dir).map_err(|e| format!("scratch dir {}: {e}", dir.display()))?;
    struct Cleanup(PathBuf);
    impl Drop for Cleanup {
        fn drop(&mut self) {
            let _ = std::fs::remove_dir_all(&self.0);
        }
    }
    let _cleanup = Cleanup(dir.clone());
    let n_crates = n_crates.max(1).min(cases.len().max(1));
    let members: Vec<String> = (0..n_crates).map(|i| format!("cc{i}")).collect();
    let mut ws = String::from("[workspace]\nresolver = \"2\"\nmembers = [\"verif_support\"");
    for m in &members {
        ws.push_str(&format!(", \"{m}\""));
    }
    ws.push_str("]\n[profile.dev]\ndebug = false\nincremental = false\n");
    std::fs::write(dir.join("Cargo.toml"), ws).map_err(|e| e.to_string())?;
    std::fs::copy("/repo/Cargo.lock", dir.join("Cargo.lock"))
        .map_err(|e| format!("copy Cargo.lock: {e}"))?;
    std::fs::create_dir_all(dir.join(".cargo")).map_err(|e| e.to_string())?;
    std::fs::write(dir.join(".cargo/config.toml"), "[net]\noffline = true\n")
        .map_err(|e| e.to_string())?;
    let dep = "parity-scale-codec = { version = \"3.6.12\", features = [\"derive\"] }\n";
    std::fs::create_dir_all(dir.join("verif_support/src")).map_err(|e| e.to_string())?;
    std::fs::write(
        dir.join("verif_support/Cargo.toml"),
        format!("[package]\nname = \"verif_support\"\nversion = \"0.1.0\"\nedition = \"2021\"\n[dependencies]\n{dep}"),
    )
    .map_err(|e| e.to_string())?;
    std::fs::write(dir.join("verif_support/src/lib.rs"), SUPPORT).map_err(|e| e.to_string())?;
    // one case per line: line number -> case
    let mut line_maps: Vec<Vec<usize>> = vec![vec![]; n_crates];
    let mut sources: Vec<String> = vec!["#![allow(warnings)]\n".to_string(); n_crates];
    for (i, c) in cases.iter().enumerate() {
        let k = i % n_crates;
        let one_line = c.tokens.replace('\n', " ");
        sources[k].push_str(&format!("pub mod case_{i} {{ {one_line} }}\n"));
        line_maps[k].push(i);
    }
    for (k, m) in members.iter().enumerate() {
        std::fs::create_dir_all(dir.join(m).join("src")).map_err(|e| e.to_string())?;
        std::fs::write(
            dir.join(m).join("Cargo.toml"),
            format!(
                "[package]\nname = \"{m}\"\nversion = \"0.1.0\"\nedition = \"2021\"\n[dependencies]\n{dep}verif_support = {{ path = \"../verif_support\" }}\n"
            ),
        )
        .map_err(|e| e.to_string())?;
        std::fs::write(dir.join(m).join("src/lib.rs"), &sources[k]).map_err(|e| e.to_string())?;
    }
    let out = Command::new("cargo")
        .arg("check")
        .arg("--offline")
        .arg("--workspace")
        .arg("--keep-going")
        .arg("-j")
        .arg("8")
        .arg("--message-format=short")
        .env("CARGO_TARGET_DIR", dir.join("target"))
        .env("CARGO_NET_OFFLINE", "true")
        .env_remove("RUSTFLAGS")
        .current_dir(&dir)
        .output()
        .map_err(|e| format!("cargo check: {e}"))?;
    let stderr = String::from_utf8_lossy(&out.stderr).to_string();
    let mut errors: BTreeMap<usize, FarmError> = BTreeMap::new();
    let mut other_errors = vec![];
    for line in stderr.lines() {
        // cc3/src/lib.rs:17:2345: error[E0072]: recursive type ...
        let Some((loc, rest)) = line.split_once(": error") else {
            continue;
        };
        let mut parts = loc.split(':');
        let file = parts.next().unwrap_or("");
        let lineno: Option<usize> = parts.next().and_then(|s| s.parse().ok());
        let krate = file.split('/').next().unwrap_or("");
        let Some(k) = krate
            .strip_prefix("cc")
            .and_then(|s| s.parse::<usize>().ok())
        else {
            if !line.contains("could not compile") && !line.contains("aborting due to") {
                other_errors.push(line.to_string());
            }
            continue;
        };
        let Some(ln) = lineno else { continue };
        // line 1 is the #![allow]; cases start at line 2
        let Some(case) = ln
            .checked_sub(2)
            .and_then(|i| line_maps.get(k).and_then(|m| m.get(i)))
            .copied()
        else {
            continue;
        };
        let message = rest
            .trim_start_matches(|c| c != ':')
            .trim_start_matches(':')
            .trim()
            .to_string();
        let code = if rest.starts_with('[') {
            rest.trim_start_matches('[')
                .split(']')
                .next()
                .unwrap_or("")
                .to_string()
        } else {
            // no error code: classify by the message with the quoted identifiers removed
            let mut m = String::new();
            let mut quoted = false;
            for ch in message.chars() {
                if ch == '`' {
                    quoted = !quoted;
                    if quoted {
                        m.push('_');
                    }
                } else if !quoted {
                    m.push(ch);
                }
            }
            m.split_whitespace().take(8).collect::<Vec<_>>().join(" ")
        };
        errors.entry(case).or_insert(FarmError {
            case,
            code,
            message,
        });
    }
    if errors.is_empty() && !out.status.success() {
        return Err(format!(
            "cargo check failed without a diagnostic that maps to a case:\n{}",
            stderr
                .lines()
                .rev()
                .take(30)
                .collect::<Vec<_>>()
                .into_iter()
                .rev()
                .collect::<Vec<_>>()
                .join("\n")
        ));
    }
    if !other_errors.is_empty() && errors.is_empty() {
        return Err(format!("unmapped diagnostics: {}", other_errors.join("\n")));
    }
    Ok(FarmResult {
        compiled: cases.len(),
        crates: n_crates,
        errors: errors.into_values().collect(),
        wall_s: start.elapsed().as_secs_f64(),
    })
}

// ---------------------------------------------------------------------------
// round trips with the real compiled types (thorough tier of C01)

pub struct RtCase {
    pub label: String,
    pub replay: Value,
    pub tokens: String,
    /// (registry id, Rust type path as named by the generator, encodings)
    pub tests: Vec<(u32, String, Vec<Vec<u8>>)>,
}

pub struct RtFailure {
    pub case: usize,
    pub id: u32,
    pub message: String,
}

pub struct RtResult {
    pub cases: usize,
    pub decodes: u64,
    pub crates: usize,
    pub compile_errors: Vec<FarmError>,
    pub failures: Vec<RtFailure>,
    pub wall_s: f64,
}

/// Compile every case into one of `n_crates` binaries and run them: every encoding must decode
/// with the named type, consume all input and re-encode to the same bytes.
pub fn roundtrip(cases: &[RtCase], n_crates: usize) -> Result<RtResult, String> {
    let start = std::time::Instant::now();
    let dir = scratch_dir();
    let _ = std::fs::remove_dir_all(&dir);
    std::fs::create_dir_all(&dir).map_err(|e| format!("scratch dir {}: {e}", dir.display()))?;
    struct Cleanup(PathBuf);
    impl Drop for Cleanup {
        fn drop(&mut self) {
            let _ = std::fs::remove_dir_all(&self.0);
        }
    }
    let _cleanup = Cleanup(dir.clone());
    let n_crates = n_crates.max(1).min(cases.len().max(1));
    let members: Vec<String> = (0..n_crates).map(|i| format!("rt{i}")).collect();
    let mut ws = String::from("[workspace]\nresolver = \"2\"\nmembers = [\"verif_support\"");
    for m in &members {
        ws.push_str(&format!(", \"{m}\""));
    }
    ws.push_str("]\n[profile.dev]\ndebug = false\nincremental = false\nopt-level = 0\n");
    std::fs::write(dir.join("Cargo.toml"), ws).map_err(|e| e.to_string())?;
    std::fs::copy("/repo/Cargo.lock", dir.join("Cargo.lock"))
        .map_err(|e| format!("copy Cargo.lock: {e}"))?;
    std::fs::create_dir_all(dir.join(".cargo")).map_err(|e| e.to_string())?;
    std::fs::write(dir.join(".cargo/config.toml"), "[net]\noffline = true\n")
        .map_err(|e| e.to_string())?;
    let dep = "parity-scale-codec = { version = \"3.6.12\", features = [\"derive\"] }\n";
    std::fs::create_dir_all(dir.join("verif_support/src")).map_err(|e| e.to_string())?;
    std::fs::write(
        dir.join("verif_support/Cargo.toml"),
        format!("[package]\nname = \"verif_support\"\nversion = \"0.1.0\"\nedition = \"2021\"\n[dependencies]\n{dep}"),
    )
    .map_err(|e| e.to_string())?;
    std::fs::write(dir.join("verif_support/src/lib.rs"), SUPPORT).map_err(|e| e.to_string())?;
    let mut line_maps: Vec<Vec<usize>> = vec![vec![]; n_crates];
    let mut sources: Vec<String> = vec!["#![allow(warnings)]\n".to_string(); n_crates];
    let mut mains: Vec<String> = vec![String::new(); n_crates];
    let mut decodes = 0u64;
    for (i, c) in cases.iter().enumerate() {
        let k = i % n_crates;
        let one_line = c.tokens.replace('\n', " ");
        let mut body = String::new();
        for (id, path, encs) in &c.tests {
            for (j, e) in encs.iter().enumerate() {
                decodes += 1;
                let bytes: Vec<String> = e.iter().map(|b| b.to_string()).collect();
                body.push_str(&format!(
                    "{{ let b: &[u8] = &[{}]; let mut c = b; match <{path} as ::parity_scale_codec::Decode>::decode(&mut c) {{ Err(e) => println!(\"FAIL {i} {id} enc{j} does-not-decode {{}}\", e), Ok(v) => {{ if !c.is_empty() {{ println!(\"FAIL {i} {id} enc{j} trailing-bytes {{}}\", c.len()); }} let r = ::parity_scale_codec::Encode::encode(&v); if r != b {{ println!(\"FAIL {i} {id} enc{j} re-encodes-differently {{:?}}\", r); }} }} }} }} ",
                    bytes.join(",")
                ));
            }
        }
        sources[k].push_str(&format!(
            "pub mod case_{i} {{ {one_line} pub fn run() {{ {body} }} }}\n"
        ));
        mains[k].push_str(&format!("    case_{i}::run();\n"));
        line_maps[k].push(i);
    }
    for (k, m) in members.iter().enumerate() {
        std::fs::create_dir_all(dir.join(m).join("src")).map_err(|e| e.to_string())?;
        std::fs::write(
            dir.join(m).join("Cargo.toml"),
            format!(
                "[package]\nname = \"{m}\"\nversion = \"0.1.0\"\nedition = \"2021\"\n[dependencies]\n{dep}verif_support = {{ path = \"../verif_support\" }}\n"
            ),
        )
        .map_err(|e| e.to_string())?;
        let src = format!(
            "{}fn main() {{\n{}    println!(\"DONE\");\n}}\n",
            sources[k], mains[k]
        );
        std::fs::write(dir.join(m).join("src/main.rs"), src).map_err(|e| e.to_string())?;
    }
    let out = Command::new("cargo")
        .arg("build")
        .arg("--offline")
        .arg("--workspace")
        .arg("--keep-going")
        .arg("-j")
        .arg("8")
        .arg("--message-format=short")
        .env("CARGO_TARGET_DIR", dir.join("target"))
        .env("CARGO_NET_OFFLINE", "true")
        .env_remove("RUSTFLAGS")
        .current_dir(&dir)
        .output()
        .map_err(|e| format!("cargo build: {e}"))?;
    let stderr = String::from_utf8_lossy(&out.stderr).to_string();
    let mut compile_errors: BTreeMap<usize, FarmError> = BTreeMap::new();
    for line in stderr.lines() {
        let Some((loc, rest)) = line.split_once(": error") else {
            continue;
        };
        let mut parts = loc.split(':');
        let file = parts.next().unwrap_or("");
        let lineno: Option<usize> = parts.next().and_then(|s| s.parse().ok());
        let Some(k) = file
            .split('/')
            .next()
            .and_then(|s| s.strip_prefix("rt"))
            .and_then(|s| s.parse::<usize>().ok())
        else {
            continue;
        };
        let Some(case) = lineno
            .and_then(|ln| ln.checked_sub(2))
            .and_then(|i| line_maps.get(k).and_then(|m| m.get(i)))
            .copied()
        else {
            continue;
        };
        let message = rest
            .trim_start_matches(|c| c != ':')
            .trim_start_matches(':')
            .trim()
            .to_string();
        let code = if rest.starts_with('[') {
            rest.trim_start_matches('[')
                .split(']')
                .next()
                .unwrap_or("")
                .to_string()
        } else {
            "error".to_string()
        };
        compile_errors.entry(case).or_insert(FarmError {
            case,
            code,
            message,
        });
    }
    let mut failures = vec![];
    for m in &members {
        let bin = dir.join("target/debug").join(m);
        if !bin.exists() {
            continue; // did not compile: reported through compile_errors
        }
        let o = Command::new(&bin)
            .output()
            .map_err(|e| format!("running {m}: {e}"))?;
        let so = String::from_utf8_lossy(&o.stdout).to_string();
        if !so.contains("DONE") {
            return Err(format!(
                "round-trip binary {m} did not finish (status {:?})",
                o.status
            ));
        }
        for l in so.lines() {
            if let Some(r) = l.strip_prefix("FAIL ") {
                let mut it = r.splitn(3, ' ');
                let case: usize = it.next().and_then(|s| s.parse().ok()).unwrap_or(0);
                let id: u32 = it.next().and_then(|s| s.parse().ok()).unwrap_or(0);
                failures.push(RtFailure {
                    case,
                    id,
                    message: it.next().unwrap_or("").to_string(),
                });
            }
        }
    }
    if compile_errors.is_empty() && !out.status.success() {
        return Err(format!(
            "cargo build failed without a diagnostic that maps to a case:\n{}",
            stderr
                .lines()
                .rev()
                .take(30)
                .collect::<Vec<_>>()
                .into_iter()
                .rev()
                .collect::<Vec<_>>()
                .join("\n")
        ));
    }
    Ok(RtResult {
        cases: cases.len(),
        decodes,
        crates: n_crates,
        compile_errors: compile_errors.into_values().collect(),
        failures,
        wall_s: start.elapsed().as_secs_f64(),
    })
}
