//! Running the real implementation on one state, under `catch_unwind`.

use crate::interp::Emitted;
use crate::settings::SettingsSpec;
use scale_info::PortableRegistry;
use scale_typegen::typegen::ir::ToTokensWithSettings;
use scale_typegen::{TypeGenerator, TypeGeneratorSettings, TypegenError};
use std::panic::{catch_unwind, AssertUnwindSafe};

thread_local! {
    /// > 0 while the code under test runs inside `guarded` (its panics are verdicts, not noise)
    static GUARD_DEPTH: std::cell::Cell<u32> = const { std::cell::Cell::new(0) };
}

/// Panics of the code under test (inside `guarded`) are silent: they become violations. A panic anywhere else
/// is a bug of the machinery: it is printed, and the supervising process turns the exit status into exit 2.
pub fn install_quiet_panic_hook() {
    std::panic::set_hook(Box::new(|info| {
        if GUARD_DEPTH.with(|d| d.get()) == 0 {
            eprintln!(
                "machinery error: panic in the harness itself (not in the code under test): {info}"
            );
        }
    }));
}

pub fn panic_msg(e: Box<dyn std::any::Any + Send>) -> String {
    if let Some(s) = e.downcast_ref::<&str>() {
        s.to_string()
    } else if let Some(s) = e.downcast_ref::<String>() {
        s.clone()
    } else {
        "<non-string panic>".into()
    }
}

/// run `f`, turning a panic into `Err(message)`
pub fn guarded<T>(f: impl FnOnce() -> T) -> Result<T, String> {
    GUARD_DEPTH.with(|d| d.set(d.get() + 1));
    let r = catch_unwind(AssertUnwindSafe(f)).map_err(panic_msg);
    GUARD_DEPTH.with(|d| d.set(d.get().saturating_sub(1)));
    r
}

#[derive(Clone, Debug, PartialEq, Eq, Hash)]
pub enum ErrKind {
    SynParse,
    InvalidFields,
    InvalidType,
    CompactPathNone,
    DecodedBitsPathNone,
    TypeNotFound(u32),
    InvalidSubstitute,
    SettingsValidation,
    DuplicateTypePath(String),
    RegistryTypeIdsInvalid { given: u32, expected: u32 },
    Other(String),
}

impl ErrKind {
    pub fn of(e: &TypegenError) -> ErrKind {
        match e {
            TypegenError::SynParseError(_) => ErrKind::SynParse,
            TypegenError::InvalidFields(_) => ErrKind::InvalidFields,
            TypegenError::InvalidType(_) => ErrKind::InvalidType,
            TypegenError::CompactPathNone => ErrKind::CompactPathNone,
            TypegenError::DecodedBitsPathNone => ErrKind::DecodedBitsPathNone,
            TypegenError::TypeNotFound(i) => ErrKind::TypeNotFound(*i),
            TypegenError::InvalidSubstitute(_) => ErrKind::InvalidSubstitute,
            TypegenError::SettingsValidation(_) => ErrKind::SettingsValidation,
            TypegenError::DuplicateTypePath(p) => ErrKind::DuplicateTypePath(p.clone()),
            TypegenError::RegistryTypeIdsInvalid {
                given_ty_id,
                expected_ty_id,
                ..
            } => ErrKind::RegistryTypeIdsInvalid {
                given: *given_ty_id,
                expected: *expected_ty_id,
            },
            other => ErrKind::Other(format!("{other}")),
        }
    }
    pub fn name(&self) -> String {
        match self {
            ErrKind::TypeNotFound(_) => "TypeNotFound".into(),
            ErrKind::DuplicateTypePath(_) => "DuplicateTypePath".into(),
            ErrKind::RegistryTypeIdsInvalid { .. } => "RegistryTypeIdsInvalid".into(),
            ErrKind::Other(_) => "Other".into(),
            k => format!("{k:?}"),
        }
    }
}

#[derive(Clone, Debug)]
pub enum GenOutcome {
    Ok { tokens: String },
    Err(ErrKind),
    Panic(String),
}

/// `generate_types_mod` + `to_token_stream`, as a string of tokens.
pub fn generate(registry: &PortableRegistry, settings: &TypeGeneratorSettings) -> GenOutcome {
    let r = guarded(|| {
        let gen = TypeGenerator::new(registry, settings);
        gen.generate_types_mod()
            .map(|m| m.to_token_stream(settings).to_string())
    });
    match r {
        Err(p) => GenOutcome::Panic(p),
        Ok(Err(e)) => GenOutcome::Err(ErrKind::of(&e)),
        Ok(Ok(tokens)) => GenOutcome::Ok { tokens },
    }
}

pub fn parse_emitted(tokens: &str) -> Result<Emitted, String> {
    let ts: proc_macro2::TokenStream = tokens.parse().map_err(|e| format!("lex: {e}"))?;
    Emitted::parse(ts)
}

/// `resolve_type_path(id)` rendered to tokens
pub fn resolve_path(
    registry: &PortableRegistry,
    settings: &TypeGeneratorSettings,
    id: u32,
) -> Result<Result<String, ErrKind>, String> {
    guarded(|| {
        let gen = TypeGenerator::new(registry, settings);
        gen.resolve_type_path(id)
            .map(|p| p.to_token_stream(settings).to_string())
            .map_err(|e| ErrKind::of(&e))
    })
}

pub fn spec_and_settings(spec: &SettingsSpec) -> TypeGeneratorSettings {
    spec.build()
}

pub fn polkadot_registry() -> PortableRegistry {
    use parity_scale_codec::Decode;
    let bytes = std::fs::read("/repo/artifacts/polkadot_metadata.scale").unwrap_or_else(|e| {
        eprintln!("machinery error: cannot read polkadot metadata: {e}");
        std::process::exit(2)
    });
    let md = frame_metadata::RuntimeMetadataPrefixed::decode(&mut &bytes[..]).unwrap_or_else(|e| {
        eprintln!("machinery error: metadata decoding failed: {e}");
        std::process::exit(2)
    });
    match md.1 {
        frame_metadata::RuntimeMetadata::V14(m) => m.types,
        frame_metadata::RuntimeMetadata::V15(m) => m.types,
        _ => {
            eprintln!("machinery error: unexpected metadata version");
            std::process::exit(2)
        }
    }
}
