//! A serialisable description of `TypeGeneratorSettings` (so that states can be written to
//! replay files) and its conversion to the real settings object through the public builders.

use scale_typegen::typegen::settings::substitutes::absolute_path;
use scale_typegen::typegen::settings::AllocCratePath;
use scale_typegen::{DerivesRegistry, TypeGeneratorSettings, TypeSubstitutes};
use serde::{Deserialize, Serialize};

#[derive(Clone, Debug, PartialEq, Eq, Hash, PartialOrd, Ord, Serialize, Deserialize)]
pub struct SettingsSpec {
    pub root: String,
    /// None = `AllocCratePath::Std`
    pub alloc: Option<String>,
    pub docs: bool,
    pub codec_attrs: bool,
    pub compact_path: Option<String>,
    pub bits_path: Option<String>,
    pub compact_as: Option<String>,
    pub derives_all: Vec<String>,
    pub attrs_all: Vec<String>,
    /// (type path, derives, recursive)
    pub derives_for: Vec<(String, Vec<String>, bool)>,
    /// (type path, attributes, recursive)
    pub attrs_for: Vec<(String, Vec<String>, bool)>,
    /// (source path, absolute target path)
    pub substitutes: Vec<(String, String)>,
}

pub const SUB_LSB0: (&str, &str) = ("bitvec::order::Lsb0", "::sub::Lsb0");
pub const SUB_MSB0: (&str, &str) = ("bitvec::order::Msb0", "::sub::Msb0");

impl Default for SettingsSpec {
    /// mirrors `TypeGeneratorSettings::default()`
    fn default() -> Self {
        SettingsSpec {
            root: "types".into(),
            alloc: None,
            docs: true,
            codec_attrs: false,
            compact_path: None,
            bits_path: None,
            compact_as: None,
            derives_all: vec![],
            attrs_all: vec![],
            derives_for: vec![],
            attrs_for: vec![],
            substitutes: vec![],
        }
    }
}

impl SettingsSpec {
    /// The "faithful profile": codec attributes on, compact / bits / compact-as paths set,
    /// bit-order markers substituted (as in every real configuration).
    pub fn faithful() -> Self {
        SettingsSpec {
            root: "types".into(),
            alloc: None,
            docs: true,
            codec_attrs: true,
            compact_path: Some("::c::Compact".into()),
            bits_path: Some("::b::DecodedBits".into()),
            compact_as: Some("::c::CompactAs".into()),
            derives_all: vec!["::c::Encode".into(), "::c::Decode".into()],
            attrs_all: vec![],
            derives_for: vec![],
            attrs_for: vec![],
            substitutes: vec![
                (SUB_LSB0.0.into(), SUB_LSB0.1.into()),
                (SUB_MSB0.0.into(), SUB_MSB0.1.into()),
            ],
        }
    }

    pub fn alloc_prefix(&self) -> String {
        self.alloc.clone().unwrap_or_else(|| "::std".into())
    }

    pub fn build_derives(&self) -> DerivesRegistry {
        let mut d = DerivesRegistry::new();
        d.add_derives_for_all(self.derives_all.iter().map(|s| parse_path(s)));
        d.add_attributes_for_all(self.attrs_all.iter().map(|s| parse_attr(s)));
        for (p, ds, rec) in &self.derives_for {
            d.add_derives_for(parse_type_path(p), ds.iter().map(|s| parse_path(s)), *rec);
        }
        for (p, a, rec) in &self.attrs_for {
            d.add_attributes_for(parse_type_path(p), a.iter().map(|s| parse_attr(s)), *rec);
        }
        d
    }

    pub fn build_substitutes(&self) -> TypeSubstitutes {
        let mut s = TypeSubstitutes::new();
        for (from, to) in &self.substitutes {
            s.insert(
                parse_path(from),
                absolute_path(parse_path(to)).expect("substitute target is absolute"),
            )
            .expect("substitute is well-formed");
        }
        s
    }

    pub fn build(&self) -> TypeGeneratorSettings {
        TypeGeneratorSettings {
            types_mod_ident: syn::parse_str(&self.root).expect("root ident"),
            should_gen_docs: self.docs,
            derives: self.build_derives(),
            substitutes: self.build_substitutes(),
            decoded_bits_type_path: self.bits_path.as_deref().map(parse_path),
            compact_as_type_path: self.compact_as.as_deref().map(parse_path),
            compact_type_path: self.compact_path.as_deref().map(parse_path),
            insert_codec_attributes: self.codec_attrs,
            alloc_crate_path: match &self.alloc {
                None => AllocCratePath::Std,
                Some(p) => AllocCratePath::Custom(parse_path(p)),
            },
        }
    }
}

pub fn parse_path(s: &str) -> syn::Path {
    // `P(A)` (parenthesised arguments) does not parse as a plain path: build it by hand
    if let Some(idx) = s.find('(') {
        let mut base: syn::Path =
            syn::parse_str(&s[..idx]).unwrap_or_else(|e| panic!("path `{s}`: {e}"));
        let args: syn::ParenthesizedGenericArguments =
            syn::parse_str(&s[idx..]).unwrap_or_else(|e| panic!("path `{s}`: {e}"));
        base.segments.last_mut().expect("segment").arguments =
            syn::PathArguments::Parenthesized(args);
        return base;
    }
    syn::parse_str::<syn::Path>(s).unwrap_or_else(|e| panic!("path `{s}`: {e}"))
}
pub fn parse_type_path(s: &str) -> syn::TypePath {
    syn::parse_str(s).unwrap_or_else(|e| panic!("type path `{s}`: {e}"))
}
pub fn parse_attr(s: &str) -> syn::Attribute {
    use syn::parse::Parser;
    let attrs = syn::Attribute::parse_outer
        .parse_str(s)
        .unwrap_or_else(|e| panic!("attribute `{s}`: {e}"));
    attrs.into_iter().next().expect("one attribute")
}

/// token string without any whitespace (canonical comparison form)
pub fn squash(s: &str) -> String {
    s.chars().filter(|c| !c.is_whitespace()).collect()
}

/// Canonical text of a Rust type: token-level details that do not change the type are erased
/// (integer-literal suffix of an array length, trailing commas, parentheses, whitespace), so that
/// string comparison of types never distinguishes two spellings of the same type.
pub fn canon_type(ty: &syn::Type) -> String {
    fn path(p: &syn::Path) -> String {
        let mut out = String::new();
        if p.leading_colon.is_some() {
            out.push_str("::");
        }
        let segs: Vec<String> = p
            .segments
            .iter()
            .map(|s| {
                let mut x = s.ident.to_string();
                match &s.arguments {
                    syn::PathArguments::AngleBracketed(a) => {
                        let args: Vec<String> = a
                            .args
                            .iter()
                            .map(|g| match g {
                                syn::GenericArgument::Type(t) => canon_type(t),
                                other => squash(&quote::quote!(#other).to_string()),
                            })
                            .collect();
                        x.push_str(&format!("<{}>", args.join(",")));
                    }
                    syn::PathArguments::Parenthesized(a) => {
                        x.push_str(&squash(&quote::quote!(#a).to_string()))
                    }
                    syn::PathArguments::None => {}
                }
                x
            })
            .collect();
        out.push_str(&segs.join("::"));
        out
    }
    match ty {
        syn::Type::Paren(p) => canon_type(&p.elem),
        syn::Type::Group(g) => canon_type(&g.elem),
        syn::Type::Tuple(t) => {
            let e: Vec<String> = t.elems.iter().map(canon_type).collect();
            if e.len() == 1 {
                format!("({},)", e[0])
            } else {
                format!("({})", e.join(","))
            }
        }
        syn::Type::Array(a) => {
            let len = match &a.len {
                syn::Expr::Lit(syn::ExprLit {
                    lit: syn::Lit::Int(i),
                    ..
                }) => i.base10_digits().to_string(),
                other => squash(&quote::quote!(#other).to_string()),
            };
            format!("[{};{}]", canon_type(&a.elem), len)
        }
        syn::Type::Path(p) if p.qself.is_none() => path(&p.path),
        other => squash(&quote::quote!(#other).to_string()),
    }
}

/// canonical text of a type given as a string (falls back to the squashed string)
pub fn canon_type_str(s: &str) -> String {
    match syn::parse_str::<syn::Type>(s) {
        Ok(t) => canon_type(&t),
        Err(_) => squash(s),
    }
}
