//! SCALE shape semantics (DESIGN.md 4.1): the meaning of a registry entry on the wire as a
//! labelled, possibly cyclic graph, and bisimilarity between two such graphs.

use scale_info::{form::PortableForm, PortableRegistry, TypeDef, TypeDefPrimitive};
use std::collections::HashSet;

#[derive(Clone, Debug, PartialEq, Eq)]
pub enum Node<I> {
    Prim(TypeDefPrimitive),
    Compact(I),
    Seq(I),
    Array(u32, I),
    Tuple(Vec<I>),
    Composite(Vec<(Option<String>, I)>),
    /// (index, name, fields)
    Variant(Vec<(u8, String, Vec<(Option<String>, I)>)>),
    /// store primitive, order is Msb0
    Bits(TypeDefPrimitive, bool),
    /// a type whose shape the harness does not know (substitute targets); carries a tag
    Opaque(String),
    /// the node could not be computed (dangling id, unresolved path ...)
    Broken(String),
}

impl<I> Node<I> {
    pub fn kind(&self) -> &'static str {
        match self {
            Node::Prim(_) => "prim",
            Node::Compact(_) => "compact",
            Node::Seq(_) => "seq",
            Node::Array(..) => "array",
            Node::Tuple(_) => "tuple",
            Node::Composite(_) => "composite",
            Node::Variant(_) => "variant",
            Node::Bits(..) => "bits",
            Node::Opaque(_) => "opaque",
            Node::Broken(_) => "broken",
        }
    }
}

pub trait Graph {
    type Id: Copy + Eq + std::hash::Hash + std::fmt::Debug;
    fn node(&self, id: Self::Id) -> Node<Self::Id>;
}

/// The registry as a shape graph. `Box` is already erased by scale-info; the prelude `Cow`
/// composite (path exactly `["Cow"]`) is transparent.
pub struct RegGraph<'a>(pub &'a PortableRegistry);

pub fn is_prelude_cow(ty: &scale_info::Type<PortableForm>) -> bool {
    ty.path.segments.len() == 1
        && ty.path.segments[0] == "Cow"
        && matches!(&ty.type_def, TypeDef::Composite(c) if c.fields.len() == 1)
}

impl<'a> RegGraph<'a> {
    pub fn order_of(&self, id: u32) -> Option<bool> {
        let ty = self.0.resolve(id)?;
        match ty.path.segments.last().map(|s| s.as_str()) {
            Some("Lsb0") => Some(false),
            Some("Msb0") => Some(true),
            _ => None,
        }
    }
}

impl<'a> Graph for RegGraph<'a> {
    type Id = u32;
    fn node(&self, id: u32) -> Node<u32> {
        let mut id = id;
        for _ in 0..64 {
            let Some(ty) = self.0.resolve(id) else {
                return Node::Broken(format!("dangling id {id}"));
            };
            if is_prelude_cow(ty) {
                if let TypeDef::Composite(c) = &ty.type_def {
                    id = c.fields[0].ty.id;
                    continue;
                }
            }
            let fields = |fs: &[scale_info::Field<PortableForm>]| {
                fs.iter()
                    .map(|f| (f.name.clone(), f.ty.id))
                    .collect::<Vec<_>>()
            };
            return match &ty.type_def {
                TypeDef::Composite(c) => Node::Composite(fields(&c.fields)),
                TypeDef::Variant(v) => Node::Variant(
                    v.variants
                        .iter()
                        .map(|v| (v.index, v.name.clone(), fields(&v.fields)))
                        .collect(),
                ),
                TypeDef::Sequence(s) => Node::Seq(s.type_param.id),
                TypeDef::Array(a) => Node::Array(a.len, a.type_param.id),
                TypeDef::Tuple(t) => Node::Tuple(t.fields.iter().map(|f| f.id).collect()),
                TypeDef::Primitive(p) => Node::Prim(p.clone()),
                TypeDef::Compact(c) => Node::Compact(c.type_param.id),
                TypeDef::BitSequence(b) => {
                    let store = match self.0.resolve(b.bit_store_type.id).map(|t| &t.type_def) {
                        Some(TypeDef::Primitive(p)) => p.clone(),
                        _ => return Node::Broken("bit store is not a primitive".into()),
                    };
                    match self.order_of(b.bit_order_type.id) {
                        Some(msb) => Node::Bits(store, msb),
                        None => Node::Broken("bit order is not Lsb0/Msb0".into()),
                    }
                }
            };
        }
        Node::Broken("Cow chain".into())
    }
}

#[derive(Clone, Debug)]
pub struct Mismatch {
    /// where in the type the two sides differ, e.g. `.b/Some.0`
    pub at: String,
    /// short classification used in known-finding signatures, e.g. `prim`, `kind:seq/composite`
    pub class: String,
    pub left: String,
    pub right: String,
}

/// Bisimilarity of `a` in `ga` and `b` in `gb` (coinductive, pair memo).
/// `Opaque` on the right matches anything (counted by the caller).
pub fn bisimilar<A: Graph, B: Graph>(ga: &A, a: A::Id, gb: &B, b: B::Id) -> Result<(), Mismatch> {
    let mut assumed: HashSet<(A::Id, B::Id)> = HashSet::new();
    bisim_inner(ga, a, gb, b, &mut assumed, &mut String::new(), 0)
}

fn bisim_inner<A: Graph, B: Graph>(
    ga: &A,
    a: A::Id,
    gb: &B,
    b: B::Id,
    assumed: &mut HashSet<(A::Id, B::Id)>,
    at: &mut String,
    depth: usize,
) -> Result<(), Mismatch> {
    if !assumed.insert((a, b)) {
        return Ok(());
    }
    let na = ga.node(a);
    let nb = gb.node(b);
    let mk = |class: String, at: &str, l: String, r: String| Mismatch {
        at: at.to_string(),
        class,
        left: l,
        right: r,
    };
    if depth > 200 {
        return Err(mk("depth".into(), at, "..".into(), "..".into()));
    }
    if let Node::Opaque(_) = nb {
        return Ok(());
    }
    if let Node::Broken(m) = &na {
        return Err(mk("broken-left".into(), at, m.clone(), nb.kind().into()));
    }
    if let Node::Broken(m) = &nb {
        return Err(mk("broken-right".into(), at, na.kind().into(), m.clone()));
    }
    let fields = |fa: &[(Option<String>, A::Id)],
                  fb: &[(Option<String>, B::Id)],
                  assumed: &mut HashSet<(A::Id, B::Id)>,
                  at: &mut String|
     -> Result<(), Mismatch> {
        if fa.len() != fb.len() {
            return Err(mk(
                "field-count".into(),
                at,
                format!("{} fields", fa.len()),
                format!("{} fields", fb.len()),
            ));
        }
        for (i, ((an, ai), (bn, bi))) in fa.iter().zip(fb.iter()).enumerate() {
            if an != bn {
                return Err(mk(
                    "field-name".into(),
                    at,
                    format!("{an:?}"),
                    format!("{bn:?}"),
                ));
            }
            let len = at.len();
            at.push_str(&format!(".{}", an.clone().unwrap_or_else(|| i.to_string())));
            bisim_inner(ga, *ai, gb, *bi, assumed, at, depth + 1)?;
            at.truncate(len);
        }
        Ok(())
    };
    match (&na, &nb) {
        (Node::Prim(x), Node::Prim(y)) => {
            if x == y {
                Ok(())
            } else {
                Err(mk("prim".into(), at, format!("{x:?}"), format!("{y:?}")))
            }
        }
        (Node::Compact(x), Node::Compact(y)) => {
            let len = at.len();
            at.push_str("/compact");
            let r = bisim_inner(ga, *x, gb, *y, assumed, at, depth + 1);
            at.truncate(len);
            r
        }
        (Node::Seq(x), Node::Seq(y)) => {
            let len = at.len();
            at.push_str("[]");
            let r = bisim_inner(ga, *x, gb, *y, assumed, at, depth + 1);
            at.truncate(len);
            r
        }
        (Node::Array(n, x), Node::Array(m, y)) => {
            if n != m {
                return Err(mk("array-len".into(), at, n.to_string(), m.to_string()));
            }
            let len = at.len();
            at.push_str("[;]");
            let r = bisim_inner(ga, *x, gb, *y, assumed, at, depth + 1);
            at.truncate(len);
            r
        }
        (Node::Tuple(xs), Node::Tuple(ys)) => {
            if xs.len() != ys.len() {
                return Err(mk(
                    "tuple-arity".into(),
                    at,
                    xs.len().to_string(),
                    ys.len().to_string(),
                ));
            }
            for (i, (x, y)) in xs.iter().zip(ys.iter()).enumerate() {
                let len = at.len();
                at.push_str(&format!(".{i}"));
                bisim_inner(ga, *x, gb, *y, assumed, at, depth + 1)?;
                at.truncate(len);
            }
            Ok(())
        }
        (Node::Composite(fa), Node::Composite(fb)) => fields(fa, fb, assumed, at),
        (Node::Variant(va), Node::Variant(vb)) => {
            if va.len() != vb.len() {
                return Err(mk(
                    "variant-count".into(),
                    at,
                    va.len().to_string(),
                    vb.len().to_string(),
                ));
            }
            for ((ia, na_, fa), (ib, nb_, fb)) in va.iter().zip(vb.iter()) {
                if na_ != nb_ {
                    return Err(mk("variant-name".into(), at, na_.clone(), nb_.clone()));
                }
                if ia != ib {
                    return Err(mk(
                        "variant-index".into(),
                        at,
                        format!("{na_}={ia}"),
                        format!("{nb_}={ib}"),
                    ));
                }
                let len = at.len();
                at.push_str(&format!("/{na_}"));
                fields(fa, fb, assumed, at)?;
                at.truncate(len);
            }
            Ok(())
        }
        (Node::Bits(s, o), Node::Bits(t, p)) => {
            if s == t && o == p {
                Ok(())
            } else {
                Err(mk(
                    "bits".into(),
                    at,
                    format!("{s:?}/{}", if *o { "Msb0" } else { "Lsb0" }),
                    format!("{t:?}/{}", if *p { "Msb0" } else { "Lsb0" }),
                ))
            }
        }
        _ => Err(mk(
            format!("kind:{}/{}", na.kind(), nb.kind()),
            at,
            format!("{na:?}"),
            format!("{nb:?}"),
        )),
    }
}

/// A registry id is "wire-trivial" when its shape contains no information (unit-like).
pub fn describe_node<G: Graph>(g: &G, id: G::Id) -> String {
    format!("{:?}", g.node(id))
}
