//! Interpreter of the emitted module (DESIGN.md 4.2): parses the token stream with `syn`,
//! resolves names by Rust's rules for the constructs the generator emits, interprets external
//! paths by a table written from the Rust / parity-scale-codec documentation, and computes the
//! SCALE shape of any type expression evaluated inside the module.

use crate::settings::{squash, SettingsSpec};
use crate::shape::{Graph, Node};
use proc_macro2::TokenStream;
use scale_info::TypeDefPrimitive;
use std::cell::RefCell;
use std::collections::{BTreeMap, HashMap};

#[derive(Clone, Debug)]
pub struct FieldAst {
    pub name: Option<String>,
    pub ty: syn::Type,
    pub compact: bool,
    pub skip: bool,
    /// all attributes, squashed token strings
    pub attrs: Vec<String>,
}

#[derive(Clone, Debug)]
pub enum FieldsAst {
    Unit,
    Named(Vec<FieldAst>),
    Unnamed(Vec<FieldAst>),
}

impl FieldsAst {
    pub fn list(&self) -> &[FieldAst] {
        match self {
            FieldsAst::Unit => &[],
            FieldsAst::Named(v) | FieldsAst::Unnamed(v) => v,
        }
    }
}

#[derive(Clone, Debug)]
pub struct VariantAst {
    pub name: String,
    pub index: Option<u8>,
    pub fields: FieldsAst,
    pub docs: Vec<String>,
    pub attrs: Vec<String>,
}

#[derive(Clone, Debug)]
pub enum ItemKind {
    Struct(FieldsAst),
    Enum(Vec<VariantAst>),
}

#[derive(Clone, Debug)]
pub struct Item {
    /// full path from the root module, e.g. ["types", "m", "S"]
    pub path: Vec<String>,
    pub generics: Vec<String>,
    pub kind: ItemKind,
    /// derive paths, squashed, in emission order (one entry per path; one Vec per #[derive] attr)
    pub derive_lists: Vec<Vec<String>>,
    /// non-derive, non-doc attributes in emission order, squashed
    pub attrs: Vec<String>,
    pub docs: Vec<String>,
    /// struct only: whether the item ended with `;`
    pub semi: bool,
    pub is_pub: bool,
}

impl Item {
    pub fn derives(&self) -> Vec<String> {
        self.derive_lists.iter().flatten().cloned().collect()
    }
}

#[derive(Clone, Debug, Default)]
pub struct ModuleAst {
    pub path: Vec<String>,
    pub uses: Vec<Vec<String>>, // each `use` path as segments, e.g. ["super","types"]
    pub child_modules: Vec<String>,
    pub item_names: Vec<String>,
    pub other_items: usize,
}

#[derive(Clone, Debug)]
pub struct Emitted {
    pub root: String,
    pub modules: BTreeMap<Vec<String>, ModuleAst>,
    pub items: BTreeMap<Vec<String>, Item>,
}

fn attr_str(a: &syn::Attribute) -> String {
    squash(&quote::quote!(#a).to_string())
}

fn doc_of(a: &syn::Attribute) -> Option<String> {
    if !a.path().is_ident("doc") {
        return None;
    }
    if let syn::Meta::NameValue(nv) = &a.meta {
        if let syn::Expr::Lit(syn::ExprLit {
            lit: syn::Lit::Str(s),
            ..
        }) = &nv.value
        {
            return Some(s.value());
        }
    }
    Some(attr_str(a))
}

fn codec_flags(attrs: &[syn::Attribute]) -> (bool, bool, Option<u8>) {
    let (mut compact, mut skip, mut index) = (false, false, None);
    for a in attrs {
        if a.path().is_ident("codec") {
            if let Ok(l) = a.meta.require_list() {
                let t = squash(&l.tokens.to_string());
                if t == "compact" {
                    compact = true;
                }
                if t == "skip" {
                    skip = true;
                }
                if let Some(r) = t.strip_prefix("index=") {
                    index = r.parse().ok();
                }
            }
        }
    }
    (compact, skip, index)
}

fn fields_ast(f: &syn::Fields) -> FieldsAst {
    let conv = |f: &syn::Field| {
        let (compact, skip, _) = codec_flags(&f.attrs);
        FieldAst {
            name: f.ident.as_ref().map(|i| i.to_string()),
            ty: f.ty.clone(),
            compact,
            skip,
            attrs: f.attrs.iter().map(attr_str).collect(),
        }
    };
    match f {
        syn::Fields::Unit => FieldsAst::Unit,
        syn::Fields::Named(n) => FieldsAst::Named(n.named.iter().map(conv).collect()),
        syn::Fields::Unnamed(u) => FieldsAst::Unnamed(u.unnamed.iter().map(conv).collect()),
    }
}

fn split_attrs(attrs: &[syn::Attribute]) -> (Vec<Vec<String>>, Vec<String>, Vec<String>) {
    let mut derives = vec![];
    let mut others = vec![];
    let mut docs = vec![];
    for a in attrs {
        if a.path().is_ident("derive") {
            let mut list = vec![];
            if let Ok(l) = a.meta.require_list() {
                let parser =
                    syn::punctuated::Punctuated::<syn::Path, syn::Token![,]>::parse_terminated;
                if let Ok(ps) = syn::parse::Parser::parse2(parser, l.tokens.clone()) {
                    for p in ps {
                        list.push(squash(&quote::quote!(#p).to_string()));
                    }
                }
            }
            derives.push(list);
        } else if let Some(d) = doc_of(a) {
            docs.push(d);
        } else {
            others.push(attr_str(a));
        }
    }
    (derives, others, docs)
}

impl Emitted {
    pub fn parse(tokens: TokenStream) -> Result<Emitted, String> {
        let file: syn::File = syn::parse2(tokens).map_err(|e| format!("syn::File: {e}"))?;
        if file.items.len() != 1 {
            return Err(format!(
                "expected one root module, got {} items",
                file.items.len()
            ));
        }
        let syn::Item::Mod(root) = &file.items[0] else {
            return Err("root item is not a module".into());
        };
        let mut e = Emitted {
            root: root.ident.to_string(),
            modules: BTreeMap::new(),
            items: BTreeMap::new(),
        };
        e.walk(root, &[])?;
        Ok(e)
    }

    fn walk(&mut self, m: &syn::ItemMod, parent: &[String]) -> Result<(), String> {
        let mut path = parent.to_vec();
        path.push(m.ident.to_string());
        let mut ast = ModuleAst {
            path: path.clone(),
            ..Default::default()
        };
        let Some((_, items)) = &m.content else {
            return Err(format!("module {} has no body", path.join("::")));
        };
        for it in items {
            match it {
                syn::Item::Use(u) => {
                    fn flat(t: &syn::UseTree, acc: &mut Vec<String>) -> bool {
                        match t {
                            syn::UseTree::Path(p) => {
                                acc.push(p.ident.to_string());
                                flat(&p.tree, acc)
                            }
                            syn::UseTree::Name(n) => {
                                acc.push(n.ident.to_string());
                                true
                            }
                            _ => false,
                        }
                    }
                    let mut acc = vec![];
                    if flat(&u.tree, &mut acc) {
                        ast.uses.push(acc);
                    } else {
                        ast.other_items += 1;
                    }
                }
                syn::Item::Mod(c) => {
                    ast.child_modules.push(c.ident.to_string());
                    self.walk(c, &path)?;
                }
                syn::Item::Struct(s) => {
                    ast.item_names.push(s.ident.to_string());
                    let (derive_lists, attrs, docs) = split_attrs(&s.attrs);
                    let mut p = path.clone();
                    p.push(s.ident.to_string());
                    self.items.entry(p.clone()).or_insert(Item {
                        path: p,
                        generics: s
                            .generics
                            .type_params()
                            .map(|t| t.ident.to_string())
                            .collect(),
                        kind: ItemKind::Struct(fields_ast(&s.fields)),
                        derive_lists,
                        attrs,
                        docs,
                        semi: s.semi_token.is_some(),
                        is_pub: matches!(s.vis, syn::Visibility::Public(_)),
                    });
                }
                syn::Item::Enum(en) => {
                    ast.item_names.push(en.ident.to_string());
                    let (derive_lists, attrs, docs) = split_attrs(&en.attrs);
                    let mut p = path.clone();
                    p.push(en.ident.to_string());
                    let variants = en
                        .variants
                        .iter()
                        .map(|v| {
                            let (_, _, index) = codec_flags(&v.attrs);
                            let (_, attrs, docs) = split_attrs(&v.attrs);
                            VariantAst {
                                name: v.ident.to_string(),
                                index,
                                fields: fields_ast(&v.fields),
                                docs,
                                attrs,
                            }
                        })
                        .collect();
                    self.items.entry(p.clone()).or_insert(Item {
                        path: p,
                        generics: en
                            .generics
                            .type_params()
                            .map(|t| t.ident.to_string())
                            .collect(),
                        kind: ItemKind::Enum(variants),
                        derive_lists,
                        attrs,
                        docs,
                        semi: false,
                        is_pub: matches!(en.vis, syn::Visibility::Public(_)),
                    });
                }
                _ => ast.other_items += 1,
            }
        }
        self.modules.insert(path, ast);
        Ok(())
    }

    /// What does identifier `name` denote in module `module` (Rust scoping for the emitted constructs)?
    /// Returns the full path of a module or an item.
    fn resolve_in_scope(&self, module: &[String], name: &str, fuel: usize) -> Option<Vec<String>> {
        if fuel == 0 {
            return None;
        }
        if module.is_empty() {
            // the scope enclosing the root module: only the root module itself is known there
            return if name == self.root {
                Some(vec![self.root.clone()])
            } else {
                None
            };
        }
        let m = self.modules.get(module)?;
        if m.child_modules.iter().any(|c| c == name) || m.item_names.iter().any(|c| c == name) {
            let mut p = module.to_vec();
            p.push(name.to_string());
            return Some(p);
        }
        for u in &m.uses {
            if u.last().map(|l| l == name).unwrap_or(false) {
                // only `use super::<name>` chains are emitted
                let mut scope = module.to_vec();
                let mut segs = u.as_slice();
                while let Some(first) = segs.first() {
                    if first == "super" {
                        scope.pop();
                        segs = &segs[1..];
                    } else {
                        break;
                    }
                }
                if segs.len() == 1 {
                    return self.resolve_in_scope(&scope, &segs[0], fuel - 1);
                }
                return None;
            }
        }
        None
    }

    /// Resolve a relative path used inside `module` to an emitted item.
    pub fn resolve_item(&self, module: &[String], segs: &[String]) -> Result<&Item, String> {
        let (first, rest) = segs.split_first().ok_or("empty path")?;
        let mut cur = self
            .resolve_in_scope(module, first, 64)
            .ok_or_else(|| format!("`{first}` does not resolve in module {}", module.join("::")))?;
        for s in rest {
            if !self.modules.contains_key(&cur) {
                return Err(format!("`{}` is not a module", cur.join("::")));
            }
            let m = &self.modules[&cur];
            if m.child_modules.iter().any(|c| c == s) || m.item_names.iter().any(|c| c == s) {
                cur.push(s.clone());
            } else {
                return Err(format!("`{s}` not found in module {}", cur.join("::")));
            }
        }
        self.items
            .get(&cur)
            .ok_or_else(|| format!("`{}` is a module, not a type", cur.join("::")))
    }
}

// ---------------------------------------------------------------------------
// external table

#[derive(Clone, Debug, PartialEq)]
pub enum Extern {
    Prim(TypeDefPrimitive),
    Str,
    Vec,
    Box,
    Cow,
    Option,
    Result,
    BTreeMap,
    /// BTreeSet / BinaryHeap / VecDeque / LinkedList: one unnamed sequence field
    SeqWrapper,
    /// VecDeque/LinkedList as a plain sequence is not what scale-info says; they share SeqWrapper.
    Range,
    NonZero(TypeDefPrimitive),
    Duration,
    Phantom,
    Compact,
    Bits,
    Order(bool),
    Opaque(String),
    /// `::ext::U8Keyed<V>`: a substitute target of known shape - a map from `u8` to `V` (what `BTreeMap<u8, V>` is
    /// on the wire). Lets the shape check see whether a substitute rule hands over the RIGHT argument.
    U8Keyed,
}

pub fn extern_table(s: &SettingsSpec) -> HashMap<String, Extern> {
    use TypeDefPrimitive as P;
    let mut t = HashMap::new();
    for (n, p) in [
        ("bool", P::Bool),
        ("char", P::Char),
        ("u8", P::U8),
        ("u16", P::U16),
        ("u32", P::U32),
        ("u64", P::U64),
        ("u128", P::U128),
        ("i8", P::I8),
        ("i16", P::I16),
        ("i32", P::I32),
        ("i64", P::I64),
        ("i128", P::I128),
    ] {
        t.insert(format!("::core::primitive::{n}"), Extern::Prim(p.clone()));
        let nz = format!("::core::num::NonZero{}", n.to_uppercase());
        if n != "bool" && n != "char" {
            t.insert(nz, Extern::NonZero(p));
        }
    }
    t.insert("::core::option::Option".into(), Extern::Option);
    t.insert("::core::result::Result".into(), Extern::Result);
    t.insert("::core::ops::Range".into(), Extern::Range);
    t.insert("::core::ops::RangeInclusive".into(), Extern::Range);
    t.insert("::core::time::Duration".into(), Extern::Duration);
    t.insert("::core::marker::PhantomData".into(), Extern::Phantom);
    let a = squash(&s.alloc_prefix());
    t.insert(format!("{a}::vec::Vec"), Extern::Vec);
    t.insert(format!("{a}::string::String"), Extern::Str);
    t.insert(format!("{a}::boxed::Box"), Extern::Box);
    t.insert(format!("{a}::borrow::Cow"), Extern::Cow);
    t.insert(format!("{a}::collections::BTreeMap"), Extern::BTreeMap);
    for n in ["BTreeSet", "BinaryHeap", "VecDeque", "LinkedList"] {
        t.insert(format!("{a}::collections::{n}"), Extern::SeqWrapper);
    }
    if let Some(c) = &s.compact_path {
        t.insert(squash(c), Extern::Compact);
    }
    if let Some(b) = &s.bits_path {
        t.insert(squash(b), Extern::Bits);
    }
    for (from, to) in &s.substitutes {
        let to_path: syn::Path = syn::parse_str(to).expect("substitute target parses");
        let key = path_key(&to_path);
        let from_last = from.rsplit("::").next().unwrap_or("").trim();
        let from_last = from_last.split('<').next().unwrap_or("").trim();
        let ext = match (from.starts_with("bitvec::order::"), from_last) {
            (true, "Lsb0") => Extern::Order(false),
            (true, "Msb0") => Extern::Order(true),
            _ if key == "::ext::U8Keyed" => Extern::U8Keyed,
            _ => Extern::Opaque(squash(from).split('<').next().unwrap_or("").to_string()),
        };
        t.insert(key, ext);
    }
    t
}

/// `::a::b::C<..>` -> "::a::b::C" (generic arguments dropped)
pub fn path_key(p: &syn::Path) -> String {
    let mut s = String::new();
    if p.leading_colon.is_some() {
        s.push_str("::");
    }
    s.push_str(
        &p.segments
            .iter()
            .map(|x| x.ident.to_string())
            .collect::<Vec<_>>()
            .join("::"),
    );
    s
}

fn last_args(p: &syn::Path) -> Vec<syn::Type> {
    match p.segments.last().map(|s| &s.arguments) {
        Some(syn::PathArguments::AngleBracketed(a)) => a
            .args
            .iter()
            .filter_map(|g| match g {
                syn::GenericArgument::Type(t) => Some(t.clone()),
                _ => None,
            })
            .collect(),
        _ => vec![],
    }
}

/// Replace generic parameter identifiers by closed types.
pub fn substitute_generics(ty: &syn::Type, env: &[(String, syn::Type)]) -> syn::Type {
    use syn::visit_mut::VisitMut;
    struct S<'a>(&'a [(String, syn::Type)]);
    impl<'a> VisitMut for S<'a> {
        fn visit_type_mut(&mut self, t: &mut syn::Type) {
            if let syn::Type::Path(p) = t {
                if p.qself.is_none() && p.path.leading_colon.is_none() && p.path.segments.len() == 1
                {
                    let seg = &p.path.segments[0];
                    if seg.arguments.is_empty() {
                        let name = seg.ident.to_string();
                        if let Some((_, r)) = self.0.iter().find(|(n, _)| *n == name) {
                            *t = r.clone();
                            return;
                        }
                    }
                }
            }
            syn::visit_mut::visit_type_mut(self, t);
        }
    }
    let mut t = ty.clone();
    S(env).visit_type_mut(&mut t);
    t
}

// ---------------------------------------------------------------------------
// the Rust-side shape graph

pub struct RustGraph<'a> {
    pub emitted: &'a Emitted,
    pub table: HashMap<String, Extern>,
    nodes: RefCell<Vec<Node<usize>>>,
    /// transparent wrappers (Box, Cow, parentheses): node i is whatever node aliases[i] is
    aliases: RefCell<HashMap<usize, usize>>,
    memo: RefCell<HashMap<String, usize>>,
    /// diagnostics: unresolved paths etc.
    pub problems: RefCell<Vec<String>>,
    pub opaque_hits: RefCell<usize>,
}

impl<'a> Graph for RustGraph<'a> {
    type Id = usize;
    fn node(&self, id: usize) -> Node<usize> {
        let mut id = id;
        for _ in 0..256 {
            match self.aliases.borrow().get(&id) {
                Some(t) => id = *t,
                None => return self.nodes.borrow()[id].clone(),
            }
        }
        Node::Broken("alias cycle (a type that is only Box/Cow of itself)".into())
    }
}

impl<'a> RustGraph<'a> {
    pub fn new(emitted: &'a Emitted, settings: &SettingsSpec) -> Self {
        RustGraph {
            emitted,
            table: extern_table(settings),
            nodes: RefCell::new(vec![]),
            aliases: RefCell::new(HashMap::new()),
            memo: RefCell::new(HashMap::new()),
            problems: RefCell::new(vec![]),
            opaque_hits: RefCell::new(0),
        }
    }

    fn alloc(&self, key: String) -> usize {
        let mut nodes = self.nodes.borrow_mut();
        let id = nodes.len();
        nodes.push(Node::Broken("in progress".into()));
        self.memo.borrow_mut().insert(key, id);
        id
    }

    fn set(&self, id: usize, n: Node<usize>) {
        self.nodes.borrow_mut()[id] = n;
    }

    fn broken(&self, id: usize, msg: String) -> usize {
        self.problems.borrow_mut().push(msg.clone());
        self.set(id, Node::Broken(msg));
        id
    }

    /// The node of a closed type expression evaluated in `module` (path from root, inclusive).
    pub fn node_of(&self, ty: &syn::Type, module: &[String]) -> usize {
        self.node_of_depth(ty, module, 0)
    }

    fn is_phantom(&self, ty: &syn::Type) -> bool {
        if let syn::Type::Path(p) = ty {
            if p.path.leading_colon.is_some() {
                return self.table.get(&path_key(&p.path)) == Some(&Extern::Phantom);
            }
        }
        false
    }

    fn fields_nodes(
        &self,
        fields: &FieldsAst,
        env: &[(String, syn::Type)],
        module: &[String],
        depth: usize,
    ) -> Vec<(Option<String>, usize)> {
        let mut out = vec![];
        for f in fields.list() {
            let closed = substitute_generics(&f.ty, env);
            // zero-sized marker fields do not exist on the wire
            if self.is_phantom(&closed) {
                continue;
            }
            let inner = self.node_of_depth(&closed, module, depth + 1);
            let id = if f.compact {
                // `#[codec(compact)] f: T` encodes as Compact<T>
                let key = format!("#compact#{inner}");
                let existing = self.memo.borrow().get(&key).copied();
                match existing {
                    Some(i) => i,
                    None => {
                        let id = self.alloc(key);
                        self.set(id, Node::Compact(inner));
                        id
                    }
                }
            } else {
                inner
            };
            out.push((f.name.clone(), id));
        }
        out
    }

    fn node_of_depth(&self, ty: &syn::Type, module: &[String], depth: usize) -> usize {
        let key = format!(
            "{}@{}",
            squash(&quote::quote!(#ty).to_string()),
            module.join("::")
        );
        if let Some(id) = self.memo.borrow().get(&key) {
            return *id;
        }
        let id = self.alloc(key);
        if depth > 60 {
            return self.broken(
                id,
                "expansion depth exceeded (polymorphic recursion?)".into(),
            );
        }
        match ty {
            syn::Type::Paren(p) => {
                let inner = self.node_of_depth(&p.elem, module, depth + 1);
                self.aliases.borrow_mut().insert(id, inner);
                id
            }
            syn::Type::Tuple(t) => {
                let elems: Vec<usize> = t
                    .elems
                    .iter()
                    .filter(|e| !self.is_phantom(e))
                    .map(|e| self.node_of_depth(e, module, depth + 1))
                    .collect();
                self.set(id, Node::Tuple(elems));
                id
            }
            syn::Type::Array(a) => {
                let len = match &a.len {
                    syn::Expr::Lit(syn::ExprLit {
                        lit: syn::Lit::Int(n),
                        ..
                    }) => n.base10_parse::<u32>().ok(),
                    _ => None,
                };
                let Some(len) = len else {
                    return self.broken(id, "array length is not an integer literal".into());
                };
                let e = self.node_of_depth(&a.elem, module, depth + 1);
                self.set(id, Node::Array(len, e));
                id
            }
            syn::Type::Path(p) if p.qself.is_none() => {
                let args = last_args(&p.path);
                // generic arguments anywhere but the last segment are not emitted
                if p.path.leading_colon.is_some()
                    || p.path
                        .segments
                        .first()
                        .map(|s| s.ident == "crate")
                        .unwrap_or(false)
                {
                    let k = path_key(&p.path);
                    let Some(ext) = self.table.get(&k).cloned() else {
                        return self.broken(id, format!("unresolved external path `{k}`"));
                    };
                    // `Cow<'a, B>` has a lifetime parameter; written with a type argument only it is not a type a
                    // field can have (rustc E0106), so it has no shape either
                    if matches!(ext, Extern::Cow) {
                        let has_lifetime = match p.path.segments.last().map(|s| &s.arguments) {
                            Some(syn::PathArguments::AngleBracketed(a)) => {
                                a.args.iter().any(|g| matches!(g, syn::GenericArgument::Lifetime(_)))
                            }
                            _ => false,
                        };
                        if !has_lifetime {
                            return self.broken(id, format!("`{k}` without its lifetime argument is not a type"));
                        }
                    }
                    self.extern_node(id, &ext, &args, module, depth, &k)
                } else {
                    let segs: Vec<String> = p
                        .path
                        .segments
                        .iter()
                        .map(|s| s.ident.to_string())
                        .collect();
                    match self.emitted.resolve_item(module, &segs) {
                        Err(e) => {
                            self.broken(id, format!("unresolved path `{}`: {e}", segs.join("::")))
                        }
                        Ok(item) => {
                            if item.generics.len() != args.len() {
                                return self.broken(
                                    id,
                                    format!(
                                        "arity: `{}` declares {} generic parameters, applied to {}",
                                        item.path.join("::"),
                                        item.generics.len(),
                                        args.len()
                                    ),
                                );
                            }
                            // arguments are closed in `module`; fields are evaluated in the item's module.
                            // All emitted paths are root-relative, so re-evaluating an argument in another
                            // module of the same tree denotes the same type.
                            let env: Vec<(String, syn::Type)> = item
                                .generics
                                .iter()
                                .cloned()
                                .zip(args.iter().cloned())
                                .collect();
                            let item_mod = &item.path[..item.path.len() - 1];
                            match &item.kind {
                                ItemKind::Struct(f) => {
                                    let fs = self.fields_nodes(f, &env, item_mod, depth);
                                    self.set(id, Node::Composite(fs));
                                }
                                ItemKind::Enum(vs) => {
                                    let mut out = vec![];
                                    for (pos, v) in vs.iter().enumerate() {
                                        let fs =
                                            self.fields_nodes(&v.fields, &env, item_mod, depth);
                                        // the marker variant for unused parameters carries only PhantomData
                                        if pos + 1 == vs.len()
                                            && fs.is_empty()
                                            && !v.fields.list().is_empty()
                                        {
                                            continue;
                                        }
                                        out.push((
                                            v.index.unwrap_or(pos as u8),
                                            v.name.clone(),
                                            fs,
                                        ));
                                    }
                                    self.set(id, Node::Variant(out));
                                }
                            }
                            id
                        }
                    }
                }
            }
            other => self.broken(
                id,
                format!("unsupported type syntax `{}`", quote::quote!(#other)),
            ),
        }
    }

    fn extern_node(
        &self,
        id: usize,
        ext: &Extern,
        args: &[syn::Type],
        module: &[String],
        depth: usize,
        key: &str,
    ) -> usize {
        let want = |n: usize| -> Result<(), String> {
            if args.len() == n {
                Ok(())
            } else {
                Err(format!(
                    "`{key}` applied to {} arguments, expects {n}",
                    args.len()
                ))
            }
        };
        let arg = |i: usize| self.node_of_depth(&args[i], module, depth + 1);
        let seq_of = |elem: usize| -> usize {
            let k = format!("#seq#{elem}");
            let existing = self.memo.borrow().get(&k).copied();
            match existing {
                Some(i) => i,
                None => {
                    let s = self.alloc(k);
                    self.set(s, Node::Seq(elem));
                    s
                }
            }
        };
        let r: Result<Node<usize>, String> = (|| {
            Ok(match ext {
                Extern::Prim(p) => {
                    want(0)?;
                    Node::Prim(p.clone())
                }
                Extern::Str => {
                    want(0)?;
                    Node::Prim(TypeDefPrimitive::Str)
                }
                Extern::Vec => {
                    want(1)?;
                    Node::Seq(arg(0))
                }
                Extern::Box | Extern::Cow => {
                    want(1)?;
                    let inner = arg(0);
                    self.aliases.borrow_mut().insert(id, inner);
                    return Ok(Node::Broken("alias".into()));
                }
                Extern::Option => {
                    want(1)?;
                    let fs = if self.is_phantom(&args[0]) {
                        vec![]
                    } else {
                        vec![(None, arg(0))]
                    };
                    Node::Variant(vec![(0, "None".into(), vec![]), (1, "Some".into(), fs)])
                }
                Extern::Result => {
                    want(2)?;
                    Node::Variant(vec![
                        (0, "Ok".into(), vec![(None, arg(0))]),
                        (1, "Err".into(), vec![(None, arg(1))]),
                    ])
                }
                Extern::BTreeMap => {
                    want(2)?;
                    let k = arg(0);
                    let v = arg(1);
                    let tk = format!("#tuple#{k},{v}");
                    let existing = self.memo.borrow().get(&tk).copied();
                    let t = match existing {
                        Some(i) => i,
                        None => {
                            let t = self.alloc(tk);
                            self.set(t, Node::Tuple(vec![k, v]));
                            t
                        }
                    };
                    Node::Composite(vec![(None, seq_of(t))])
                }
                Extern::SeqWrapper => {
                    want(1)?;
                    Node::Composite(vec![(None, seq_of(arg(0)))])
                }
                Extern::U8Keyed => {
                    want(1)?;
                    let v = arg(0);
                    let kk = "#prim#u8".to_string();
                    let existing = self.memo.borrow().get(&kk).copied();
                    let k = match existing {
                        Some(i) => i,
                        None => {
                            let k = self.alloc(kk);
                            self.set(k, Node::Prim(TypeDefPrimitive::U8));
                            k
                        }
                    };
                    let tk = format!("#tuple#{k},{v}");
                    let existing = self.memo.borrow().get(&tk).copied();
                    let t = match existing {
                        Some(i) => i,
                        None => {
                            let t = self.alloc(tk);
                            self.set(t, Node::Tuple(vec![k, v]));
                            t
                        }
                    };
                    Node::Composite(vec![(None, seq_of(t))])
                }
                Extern::Range => {
                    want(1)?;
                    let a = arg(0);
                    Node::Composite(vec![(Some("start".into()), a), (Some("end".into()), a)])
                }
                Extern::NonZero(p) => {
                    want(0)?;
                    let k = format!("#prim#{p:?}");
                    let existing = self.memo.borrow().get(&k).copied();
                    let n = match existing {
                        Some(i) => i,
                        None => {
                            let n = self.alloc(k);
                            self.set(n, Node::Prim(p.clone()));
                            n
                        }
                    };
                    Node::Composite(vec![(None, n)])
                }
                Extern::Duration => {
                    want(0)?;
                    let mk = |p: TypeDefPrimitive| {
                        let k = format!("#prim#{p:?}");
                        let existing = self.memo.borrow().get(&k).copied();
                        match existing {
                            Some(i) => i,
                            None => {
                                let n = self.alloc(k);
                                self.set(n, Node::Prim(p));
                                n
                            }
                        }
                    };
                    Node::Composite(vec![
                        (None, mk(TypeDefPrimitive::U64)),
                        (None, mk(TypeDefPrimitive::U32)),
                    ])
                }
                Extern::Phantom => {
                    // zero-sized; as a type of its own it is a unit composite
                    Node::Composite(vec![])
                }
                Extern::Compact => {
                    want(1)?;
                    Node::Compact(arg(0))
                }
                Extern::Bits => {
                    want(2)?;
                    let store = match self.node(arg(0)) {
                        Node::Prim(p) => p,
                        other => return Err(format!("bit store is not a primitive: {other:?}")),
                    };
                    let order = self.order_of(&args[1], module)?;
                    Node::Bits(store, order)
                }
                Extern::Order(_) => Node::Composite(vec![]),
                Extern::Opaque(tag) => {
                    *self.opaque_hits.borrow_mut() += 1;
                    Node::Opaque(tag.clone())
                }
            })
        })();
        match r {
            Ok(n) => {
                self.set(id, n);
                id
            }
            Err(e) => self.broken(id, e),
        }
    }

    /// The bit order a type expression denotes: a substituted marker, or the generated
    /// unit struct `…::bitvec::order::{Lsb0,Msb0}`.
    fn order_of(&self, ty: &syn::Type, module: &[String]) -> Result<bool, String> {
        let syn::Type::Path(p) = ty else {
            return Err("bit order is not a path".into());
        };
        if p.path.leading_colon.is_some() {
            return match self.table.get(&path_key(&p.path)) {
                Some(Extern::Order(msb)) => Ok(*msb),
                _ => Err(format!(
                    "bit order `{}` is not a known marker",
                    path_key(&p.path)
                )),
            };
        }
        let segs: Vec<String> = p
            .path
            .segments
            .iter()
            .map(|s| s.ident.to_string())
            .collect();
        let item = self.emitted.resolve_item(module, &segs)?;
        let n = item.path.len();
        if n >= 3 && item.path[n - 3] == "bitvec" && item.path[n - 2] == "order" {
            match item.path[n - 1].as_str() {
                "Lsb0" => return Ok(false),
                "Msb0" => return Ok(true),
                _ => {}
            }
        }
        Err(format!("bit order `{}` is not Lsb0/Msb0", segs.join("::")))
    }
}
