//! C03 - no silent conflation - and C04 - the path de-duplication contract.
//! Both explore driver D-family (all same-path families up to a size bound, in every registry
//! order the driver's construction produces), D-generic without the coincidence filter, and the
//! Polkadot registry.

use crate::checks::c01::{faithfulness, truncate, Faith};
use crate::checks::c05::wf5_ok;
use crate::drivers::*;
use crate::engine::*;
use crate::families::*;
use crate::run::*;
use crate::settings::SettingsSpec;
use crate::spm::*;
use scale_info::PortableRegistry;
use serde_json::json;
use std::collections::{BTreeMap, HashSet};
use std::time::Duration;

fn spec() -> SettingsSpec {
    let mut s = SettingsSpec::faithful();
    s.root = "root".into();
    s
}

fn dedup(reg: &PortableRegistry) -> Result<PortableRegistry, String> {
    let mut r = reg.clone();
    match guarded(|| scale_typegen::utils::ensure_unique_type_paths(&mut r)) {
        Ok(Ok(())) => Ok(r),
        Ok(Err(e)) => Err(format!("error {e}")),
        Err(p) => Err(format!("panic {p}")),
    }
}

/// is some same-path generic family of the program coincident (CF1/CF2/CF3 violated)?
pub fn program_coincident(prog: &Program) -> Option<&'static str> {
    let el = elaborate(prog);
    for t in &el.origin {
        if let Ty::Named(d, args) = t {
            if !args.is_empty() {
                if let Err(w) = coincidence(&prog.defs[*d], args, prog) {
                    return Some(w);
                }
            }
        }
    }
    None
}

/// C03 on one registry. `class`: a label of the input class that becomes part of the signature
/// ("plain" / "coincident-generic" ...), so that a known finding about one class does not hide others.
pub fn check_c03(case: &Case, class: &str, ctx: &mut Ctx) {
    let registry = case.reg.registry();
    let sp = &case.settings;
    let replay = || case.replay("C03");
    let size = case.reg.size();
    // raw
    match faithfulness(&registry, sp, None) {
        Faith::GenErr(ErrKind::DuplicateTypePath(_)) => {
            ctx.exec(1);
            ctx.outcome(&"raw:duplicate-error");
        }
        Faith::GenErr(e) => {
            ctx.exec(1);
            ctx.note(format!("raw generation error {} (C10)", e.name()), 1);
        }
        Faith::GenPanic(m) => {
            ctx.exec(1);
            ctx.note(
                format!("raw generation panic {} (C10)", truncate(&m, 50)),
                1,
            );
        }
        Faith::Unparsable(e) => {
            ctx.exec(1);
            ctx.violation("C03/raw/unparsable", e, replay(), size);
        }
        Faith::Checked {
            bad,
            executions,
            tokens,
            ..
        } => {
            ctx.exec(executions);
            ctx.outcome(&("raw:ok", crate::settings::squash(&tokens), bad.len()));
            for (_, sig, detail) in bad {
                ctx.violation(
                    format!("C03/conflated/{class}/raw/{sig}"),
                    format!("generation succeeded on the raw registry, but {detail}"),
                    replay(),
                    size,
                );
            }
        }
    }
    // after de-duplication
    let Ok(after) = dedup(&registry) else {
        ctx.note("de-duplication failed (C04/C10)", 1);
        return;
    };
    // "the utility never leaves two differently shaped types under one path": decided on the source
    // (same generalised definition <=> same shape), independently of whether generation then fails
    if let (RegSrc::Prog(prog), false) = (&case.reg, class.starts_with("coincident")) {
        let el = elaborate(prog);
        let want = expected_dedup(prog, &el);
        // two entries that the reference puts under different names must not share a path afterwards
        let mut by_path: BTreeMap<Vec<String>, Vec<u32>> = BTreeMap::new();
        for t in &after.types {
            if t.ty.path.segments.len() >= 2 {
                by_path
                    .entry(t.ty.path.segments.clone())
                    .or_default()
                    .push(t.id);
            }
        }
        for (p, ids) in by_path {
            let names: std::collections::BTreeSet<&Vec<String>> = ids
                .iter()
                .map(|i| &want.types[*i as usize].ty.path.segments)
                .collect();
            if names.len() > 1 {
                ctx.violation(
                    format!("C03/dedup-leaves-different-shapes/{class}"),
                    format!(
                        "after ensure_unique_type_paths the entries {ids:?} still share the path {} although they are different definitions (reference names {:?})",
                        p.join("::"),
                        names.iter().map(|n| n.join("::")).collect::<Vec<_>>()
                    ),
                    replay(),
                    size,
                );
                break;
            }
        }
    }
    match faithfulness(&after, sp, None) {
        Faith::GenErr(e) => {
            ctx.exec(1);
            ctx.note(
                format!(
                    "generation after de-duplication fails with {} (reported by C04)",
                    e.name()
                ),
                1,
            );
        }
        Faith::GenPanic(m) => {
            ctx.exec(1);
            ctx.note(
                format!(
                    "generation after de-duplication panics {} (C10)",
                    truncate(&m, 50)
                ),
                1,
            );
        }
        Faith::Unparsable(e) => {
            ctx.exec(1);
            ctx.violation("C03/dedup/unparsable", e, replay(), size);
        }
        Faith::Checked {
            bad,
            executions,
            tokens,
            ..
        } => {
            ctx.exec(executions);
            ctx.outcome(&("dedup:ok", crate::settings::squash(&tokens), bad.len()));
            for (_, sig, detail) in bad {
                ctx.violation(
                    format!("C03/conflated/{class}/after-dedup/{sig}"),
                    format!("after ensure_unique_type_paths two differently shaped types still share an item: {detail}"),
                    replay(),
                    size,
                );
            }
        }
    }
}

// ---------------------------------------------------------------------------
// C04

fn is_user_def(t: &scale_info::PortableType) -> bool {
    t.ty.path.segments.len() >= 2
}

/// Reference result of de-duplication, computed from the source program.
pub fn expected_dedup(prog: &Program, el: &Elaborated) -> PortableRegistry {
    // classes of entries per path, in order of first appearance
    let mut per_path: BTreeMap<Vec<String>, Vec<(usize, Vec<u32>)>> = BTreeMap::new();
    let mut order_of_paths: Vec<Vec<String>> = vec![];
    for t in &el.registry.types {
        if !is_user_def(t) {
            continue;
        }
        let d = match &el.origin[t.id as usize] {
            Ty::Named(d, _) => *d,
            Ty::Box(inner) => match &**inner {
                Ty::Named(d, _) => *d,
                _ => continue,
            },
            _ => continue, // bit-order markers
        };
        let path = t.ty.path.segments.clone();
        if !per_path.contains_key(&path) {
            order_of_paths.push(path.clone());
        }
        // associated types are part of the (generalised) definition: `D<T: Config>{a: T::Inner}` is a
        // different definition for every value of `T::Inner`
        let assoc_of = |id: u32| -> Vec<Ty> {
            let (dd, args) = match &el.origin[id as usize] {
                Ty::Named(dd, a) => (*dd, a.clone()),
                Ty::Box(inner) => match &**inner {
                    Ty::Named(dd, a) => (*dd, a.clone()),
                    _ => return vec![],
                },
                _ => return vec![],
            };
            let def = &prog.defs[dd];
            (0..def.params.len())
                .filter(|i| {
                    def.all_fields().iter().any(|f| {
                        let mut subs = vec![f.ty.clone()];
                        crate::families::subterms(&f.ty, &mut subs);
                        subs.contains(&Ty::Assoc(*i))
                    })
                })
                .map(|i| substitute(&Ty::Assoc(i), &args, prog))
                .collect()
        };
        let my_assoc = assoc_of(t.id);
        let classes = per_path.entry(path).or_default();
        let mut placed = false;
        for (rep, ids) in classes.iter_mut() {
            let mut assumed = HashSet::new();
            let rep_assoc = assoc_of(ids[0]);
            let assoc_same = rep_assoc.len() == my_assoc.len()
                && rep_assoc
                    .iter()
                    .zip(my_assoc.iter())
                    .all(|(x, y)| tys_equiv(prog, x, y, &mut HashSet::new()));
            if assoc_same && defs_equiv(prog, *rep, d, &mut assumed) {
                ids.push(t.id);
                placed = true;
                break;
            }
        }
        if !placed {
            classes.push((d, vec![t.id]));
        }
    }
    let mut out = el.registry.clone();
    for (_, classes) in per_path {
        if classes.len() < 2 {
            continue;
        }
        for (k, (_, ids)) in classes.iter().enumerate() {
            for id in ids {
                let name = out.types[*id as usize].ty.path.segments.last_mut().unwrap();
                *name = format!("{name}{}", k + 1);
            }
        }
    }
    out
}

fn paths_of(r: &PortableRegistry) -> Vec<String> {
    r.types
        .iter()
        .map(|t| t.ty.path.segments.join("::"))
        .collect()
}

pub fn check_c04(case: &Case, class: &str, ctx: &mut Ctx) {
    let before = case.reg.registry();
    let replay = || case.replay("C04");
    let size = case.reg.size();
    ctx.exec(1);
    let after = match dedup(&before) {
        Ok(a) => a,
        Err(e) => {
            ctx.violation(
                format!("C04/dedup-fails/{}", truncate(&e, 30)),
                format!("ensure_unique_type_paths on a registry with consistent ids: {e}"),
                replay(),
                size,
            );
            return;
        }
    };
    ctx.outcome(&paths_of(&after));
    // (a) frame, weak form - holds for any input: only last path segments may change, and only
    // for user types whose path was shared in `before`
    if before.types.len() != after.types.len() {
        ctx.violation(
            "C04/frame/entry-count",
            "number of entries changed".to_string(),
            replay(),
            size,
        );
        return;
    }
    let mut shared: BTreeMap<Vec<String>, usize> = BTreeMap::new();
    for t in &before.types {
        *shared.entry(t.ty.path.segments.clone()).or_default() += 1;
    }
    for (b, a) in before.types.iter().zip(after.types.iter()) {
        if b == a {
            continue;
        }
        let mut b2 = b.clone();
        if let (Some(x), Some(y)) = (b2.ty.path.segments.last_mut(), a.ty.path.segments.last()) {
            let old = x.clone();
            *x = y.clone();
            if b2 != *a {
                ctx.violation(
                    "C04/frame/more-than-last-segment",
                    format!(
                        "entry {} changed in more than its last path segment: {:?} -> {:?}",
                        b.id, b.ty.path.segments, a.ty.path.segments
                    ),
                    replay(),
                    size,
                );
            } else {
                // new name is old name + k, k >= 1
                let ok = y
                    .strip_prefix(old.as_str())
                    .map(|k| {
                        k.parse::<u32>()
                            .map(|k| {
                                k >= 1
                                    && !k.to_string().is_empty()
                                    && !y[old.len()..].starts_with('0')
                            })
                            .unwrap_or(false)
                    })
                    .unwrap_or(false);
                if !ok {
                    ctx.violation(
                        "C04/numbering/not-old-plus-k",
                        format!("entry {} renamed `{old}` -> `{y}`", b.id),
                        replay(),
                        size,
                    );
                }
                if shared.get(&b.ty.path.segments).copied().unwrap_or(0) < 2 {
                    ctx.violation(
                        "C04/frame/renamed-unshared",
                        format!("entry {} (`{}`) did not share its path with any other type but was renamed to `{y}`", b.id, b.ty.path.segments.join("::")),
                        replay(),
                        size,
                    );
                }
            }
        } else {
            ctx.violation(
                "C04/frame/pathless-changed",
                format!("entry {} without a path changed", b.id),
                replay(),
                size,
            );
        }
    }
    // (a), (c), (e) exact form against the source-level reference
    // (coincident generic families are outside the "instantiations stay together" clause, and their
    // members are closed types of different shape, so either grouping satisfies the statement)
    if let (RegSrc::Prog(prog), false) = (&case.reg, class.starts_with("coincident")) {
        let el = elaborate(prog);
        let want = expected_dedup(prog, &el);
        if want != after {
            let (pa, pw) = (paths_of(&after), paths_of(&want));
            let diff: Vec<String> = pa
                .iter()
                .zip(pw.iter())
                .enumerate()
                .filter(|(_, (x, y))| x != y)
                .map(|(i, (x, y))| format!("#{i}: got {x}, expected {y}"))
                .collect();
            // which clause?
            let before_paths = paths_of(&before);
            let renamed_unneeded = pa
                .iter()
                .zip(pw.iter())
                .zip(before_paths.iter())
                .any(|((x, y), b)| x != b && y == b);
            let not_renamed = pa
                .iter()
                .zip(pw.iter())
                .zip(before_paths.iter())
                .any(|((x, y), b)| x == b && y != b);
            let clause = if renamed_unneeded {
                "split-one-definition"
            } else if not_renamed {
                "kept-different-shapes-together"
            } else {
                "numbering-order"
            };
            ctx.violation(
                format!("C04/grouping/{class}/{clause}"),
                format!("paths after de-duplication differ from the reference (same source definition <=> same name; numbered by first appearance): {}", diff.join("; ")),
                replay(),
                size,
            );
        }
    }
    // (b) sufficient
    let sp = &case.settings;
    ctx.exec(1);
    let collision = || {
        // a renamed entry now carries a name that another entry already had before
        let before_paths: HashSet<String> = paths_of(&before).into_iter().collect();
        before.types.iter().zip(after.types.iter()).any(|(b, a)| {
            b.ty.path != a.ty.path && before_paths.contains(&a.ty.path.segments.join("::"))
        })
    };
    match generate(&after, &sp.build()) {
        GenOutcome::Err(ErrKind::DuplicateTypePath(p)) => {
            let sub = if collision() {
                "suffix-collision-with-existing-name"
            } else {
                class
            };
            ctx.violation(
                format!("C04/insufficient/{sub}"),
                format!("generation on the de-duplicated registry still fails with DuplicateTypePath({p})"),
                replay(),
                size,
            );
        }
        GenOutcome::Ok { .. } => {}
        GenOutcome::Err(e) => ctx.note(
            format!("generation after de-duplication: {} (C10)", e.name()),
            1,
        ),
        GenOutcome::Panic(m) => ctx.note(
            format!(
                "generation after de-duplication panics: {} (C10)",
                truncate(&m, 40)
            ),
            1,
        ),
    }
    // (d) idempotent
    ctx.exec(1);
    match dedup(&after) {
        Ok(again) => {
            if again != after {
                let sub = if collision() {
                    "suffix-collision-with-existing-name"
                } else {
                    class
                };
                ctx.violation(
                    format!("C04/not-idempotent/{sub}"),
                    format!(
                        "a second run renames again: {:?} -> {:?}",
                        paths_of(&after)
                            .iter()
                            .filter(|p| p.contains("::"))
                            .collect::<Vec<_>>(),
                        paths_of(&again)
                            .iter()
                            .filter(|p| p.contains("::"))
                            .collect::<Vec<_>>()
                    ),
                    replay(),
                    size,
                );
            }
        }
        Err(e) => ctx.violation("C04/second-run-fails", e, replay(), size),
    }
}

// ---------------------------------------------------------------------------

fn explore_both(report: &mut Report, thorough: bool, seed: u64, which: &'static str) {
    let sp = spec();
    let check = |case: &Case, class: &str, ctx: &mut Ctx| {
        if which == "C03" {
            check_c03(case, class, ctx)
        } else {
            check_c04(case, class, ctx)
        }
    };
    // D-family, two instances: full twin alphabet with <= 2 fields per member; the twin-only
    // alphabet {X, X', Y, Y'} with <= 3 fields (the visited-set shortcut needs three fields)
    let fams = vec![
        DFamily {
            max_members: if thorough { 3 } else { 2 },
            max_fields: 2,
            alphabet: FAM_ALPHABET.to_vec(),
            forms: if thorough {
                ALL_MEMBER_FORMS.to_vec()
            } else {
                vec![MemberForm::NamedStruct]
            },
            leads: if thorough { vec![0, 1, 2] } else { vec![0, 1] },
            with_neighbours: which == "C04",
        },
        DFamily {
            max_members: 2,
            max_fields: 3,
            alphabet: FAM_SMALL.to_vec(),
            forms: ALL_MEMBER_FORMS.to_vec(),
            leads: vec![0, 1, 2],
            with_neighbours: false,
        },
        // three shapes under one path whose members share / differ in a component of a SECOND
        // same-path family (state carried from one comparison to the next shows only here)
        DFamily {
            max_members: 3,
            max_fields: 2,
            alphabet: vec![FamTy::Z, FamTy::Z2, FamTy::U8, FamTy::U16, FamTy::Tup0, FamTy::Tup2, FamTy::Tup3],
            forms: vec![MemberForm::NamedStruct],
            leads: vec![0],
            with_neighbours: false,
        },
    ];
    for f in &fams {
        let budget = Budget {
            max_depth: ((f.max_fields + 1) * f.max_members) as u32,
            wall: Duration::from_secs(if thorough { 1200 } else { 150 }),
            max_states: 60_000_000,
        };
        report.add(explore(f, &budget, seed, |s, ctx| {
            let case = Case::new(RegSrc::Prog(s.program()), sp.clone(), "D-family");
            check(&case, "plain-family", ctx);
        }));
    }
    // D-nest: two crate versions of a three-level chain of generic types Outer<T> -> Mid<U> -> Inner<V>;
    // the versions differ (or not) in one field of the innermost type, so the comparison reaches the
    // difference three generic levels down
    {
        let alts = |v: bool| -> Vec<Ty> {
            let _ = v;
            vec![
                Ty::Vec(b(Ty::Param(0))),
                Ty::Vec(b(U8)),
                Ty::Vec(b(U16)),
                Ty::Param(0),
                U8,
                U16,
                Ty::Option(b(Ty::Param(0))),
            ]
        };
        let mut nest: Vec<Case> = vec![];
        for xa in alts(true) {
            for xb in alts(false) {
                for (mid_arg, inner_arg) in [(U8, U16), (U16, U8), (U8, U8)] {
                    // defs: 0 InnerA, 1 MidA, 2 OuterA, 3 InnerB, 4 MidB, 5 OuterB, 6 Host
                    let mk = |x: &Ty, base: usize| -> Vec<Def> {
                        vec![
                            Def::strukt(
                                &["n", "c"],
                                "Inner",
                                &["V"],
                                named(vec![("v", Ty::Param(0)), ("x", x.clone())]),
                            ),
                            Def::strukt(
                                &["n", "c"],
                                "Mid",
                                &["U"],
                                named(vec![
                                    ("u", Ty::Param(0)),
                                    ("i", Ty::Named(base, vec![inner_arg.clone()])),
                                ]),
                            ),
                            Def::strukt(
                                &["n", "c"],
                                "Outer",
                                &["T"],
                                named(vec![
                                    ("t", Ty::Param(0)),
                                    ("m", Ty::Named(base + 1, vec![mid_arg.clone()])),
                                ]),
                            ),
                        ]
                    };
                    let mut defs = mk(&xa, 0);
                    defs.extend(mk(&xb, 3));
                    defs.push(Def::strukt(
                        &["n", "h"],
                        "Host",
                        &[],
                        named(vec![
                            ("a", Ty::Named(2, vec![Ty::Prim(Prim::Bool)])),
                            ("b", Ty::Named(5, vec![Ty::Prim(Prim::Bool)])),
                        ]),
                    ));
                    let prog = Program {
                        defs,
                        roots: vec![Ty::Named(6, vec![])],
                    };
                    nest.push(Case::new(RegSrc::Prog(prog), sp.clone(), "D-nest"));
                }
            }
        }
        report.add(sweep(
            "D-nest(two versions of a three-level generic chain, innermost field from 7 alternatives each, 3 argument choices)",
            &nest,
            Duration::from_secs(60),
            |c| c.reg.describe(),
            |c, ctx| {
                let class = match &c.reg {
                    RegSrc::Prog(p) => match program_coincident(p) {
                        Some(w) => format!("coincident-generic({})", &w[..3]),
                        None => "nested-generic-chain".to_string(),
                    },
                    _ => "chain".into(),
                };
                check(c, &class, ctx)
            },
        ));
    }
    // D-mix: a generic family (`D<T> { v: W<T> }` as D<u8>, D<u16>) AND a two-shape plain family (`Bar { v: W<u8> }`,
    // `Bar { v: W<u16> }`) in one registry, in both orders: what makes two ids equal inside the generic (the
    // parameter) does not make them equal anywhere else
    {
        let wraps: Vec<(&str, Box<dyn Fn(Ty) -> Ty>)> = vec![
            ("Vec", Box::new(|t| Ty::Vec(b(t)))),
            ("Option", Box::new(|t| Ty::Option(b(t)))),
            ("array", Box::new(|t| Ty::Array(b(t), 2))),
            ("tuple", Box::new(|t| Ty::Tuple(vec![t, Ty::Prim(Prim::Bool)]))),
            ("plain", Box::new(|t| t)),
        ];
        let mut mix: Vec<Case> = vec![];
        for (wname, w) in &wraps {
            for generic_first in [true, false] {
                let defs = vec![
                    Def::strukt(&["x", "g"], "D", &["T"], named(vec![("v", w(Ty::Param(0)))])),
                    Def::strukt(&["x", "c"], "Bar", &[], named(vec![("v", w(U8))])),
                    Def::strukt(&["x", "c"], "Bar", &[], named(vec![("v", w(U16))])),
                ];
                let g = vec![("g0".to_string(), Field::new(Ty::Named(0, vec![U8]))), ("g1".to_string(), Field::new(Ty::Named(0, vec![U16])))];
                let f = vec![("b0".to_string(), Field::new(Ty::Named(1, vec![]))), ("b1".to_string(), Field::new(Ty::Named(2, vec![])))];
                let fields: Vec<(String, Field)> = if generic_first { g.into_iter().chain(f).collect() } else { f.into_iter().chain(g).collect() };
                let mut defs = defs;
                defs.push(Def::strukt(&["x", "h"], "Host", &[], Fields::Named(fields)));
                mix.push(Case::new(RegSrc::Prog(Program { defs, roots: vec![Ty::Named(3, vec![])] }), sp.clone(), format!("D-mix({wname}, generic first: {generic_first})")));
            }
        }
        report.add(sweep(
            "D-mix(a generic family and a two-shape plain family over the same pair of types, 5 wrappers x 2 orders)",
            &mix,
            Duration::from_secs(60),
            |c| c.reg.describe(),
            |c, ctx| check(c, "plain-family", ctx),
        ));
    }
    // D-many: families with 9, 10, 11 and 13 shapes under one path (the suffix is a number, not a digit)
    {
        let prims = Prim::ALL;
        let mut many: Vec<Case> = vec![];
        for k in [9usize, 10, 11, 13] {
            let mut defs: Vec<Def> = (0..k).map(|i| Def::strukt(&["m", "f"], "Foo", &[], named(vec![("x", Ty::Prim(prims[i % prims.len()]))]))).collect();
            let fields: Vec<(String, Field)> = (0..k).map(|i| (format!("m{i}"), Field::new(Ty::Named(i, vec![])))).collect();
            defs.push(Def::strukt(&["m", "h"], "Host", &[], Fields::Named(fields)));
            many.push(Case::new(RegSrc::Prog(Program { defs, roots: vec![Ty::Named(k, vec![])] }), sp.clone(), format!("D-many({k} shapes)")));
        }
        report.add(sweep(
            "D-many(one path with 9, 10, 11 and 13 differently shaped types)",
            &many,
            Duration::from_secs(60),
            |c| c.reg.describe(),
            |c, ctx| check(c, "plain-family", ctx),
        ));
    }
    // D-generic without the coincidence filter: coincident instantiation sets and Config-trait
    // variants with different associated types are same-path families too
    let d = DGeneric {
        max_fields: 2,
        max_insts: if thorough { 3 } else { 2 },
        include_cf3: true,
        body_forms: if thorough {
            ALL_BODY_FORMS.to_vec()
        } else {
            vec![BodyForm::Named]
        },
        param_forms: if thorough {
            ALL_PARAM_FORMS.to_vec()
        } else {
            vec![
                ParamForm::One,
                ParamForm::ConfigSkipped,
                ParamForm::ConfigKept,
                ParamForm::BitsSO,
            ]
        },
    };
    let budget = Budget {
        max_depth: if thorough { 4 } else { 3 },
        wall: Duration::from_secs(if thorough { 1200 } else { 150 }),
        max_states: 60_000_000,
    };
    report.add(explore(&d, &budget, seed, |s, ctx| {
        if !wf5_ok(s) {
            ctx.exclude("WF5: parameter under compact instantiated with a non-compactable type");
            return;
        }
        let prog = s.program();
        let class = match s
            .insts
            .iter()
            .find_map(|a| coincidence(&prog.defs[G_D], a, &prog).err())
        {
            Some(w) => format!("coincident-generic({})", &w[..3]),
            None => "generic-family".to_string(),
        };
        let case = Case::new(
            RegSrc::Prog(prog),
            sp.clone(),
            "D-generic (no coincidence filter)",
        );
        check(&case, &class, ctx);
    }));
    // three instantiations of a two-parameter definition with one field: whether two same-path entries count
    // as one definition is decided pairwise (each against the first); with three of them, one of which uses one
    // type for both parameters, "equal to the first" is not transitive
    let d3 = DGeneric {
        max_fields: 1,
        max_insts: 3,
        include_cf3: false,
        body_forms: vec![BodyForm::Named],
        param_forms: vec![ParamForm::Two],
    };
    let budget = Budget {
        max_depth: 4,
        wall: Duration::from_secs(if thorough { 600 } else { 150 }),
        max_states: 60_000_000,
    };
    // (in the quick tier this driver runs for C04, whose "generation no longer fails" clause it is about)
    if which == "C04" || thorough {
        let mut st3 = explore(&d3, &budget, seed, |s, ctx| {
            if !wf5_ok(s) {
                ctx.exclude(
                    "WF5: parameter under compact instantiated with a non-compactable type",
                );
                return;
            }
            let prog = s.program();
            let class = match s
                .insts
                .iter()
                .find_map(|a| coincidence(&prog.defs[G_D], a, &prog).err())
            {
                Some(w) => format!("coincident-generic({})", &w[..3]),
                None => "generic-family".to_string(),
            };
            let case = Case::new(
                RegSrc::Prog(prog),
                sp.clone(),
                "D-generic, three instantiations of <T, U>",
            );
            check(&case, &class, ctx);
        });
        st3.driver = format!("three instantiations: {}", st3.driver);
        report.add(st3);
    }
    // three instantiations of a one-parameter definition with one field, every order (cheap enough for both
    // properties' quick tiers)
    {
        let slice = crate::families::three_inst_slice(true);
        report.add(sweep(
            "D-generic slice: one field x three instantiations in every order, the parameter or associated type three levels down x two and three instantiations, and definitions with three parameters (<= 2 fields, <= 2 instantiations)",
            &slice,
            Duration::from_secs(120),
            |s| json!({"program": s.program().to_source()}),
            |s, ctx| {
                if !wf5_ok(s) {
                    ctx.exclude("WF5: parameter under compact instantiated with a non-compactable type");
                    return;
                }
                let prog = s.program();
                let class = match s.insts.iter().find_map(|a| coincidence(&prog.defs[G_D], a, &prog).err()) {
                    Some(w) => format!("coincident-generic({})", &w[..3]),
                    None => "generic-family".to_string(),
                };
                let case = Case::new(RegSrc::Prog(prog), sp.clone(), "D-generic, three instantiations of <Item>");
                check(&case, &class, ctx);
            },
        ));
    }
    // D-chain
    let mut chain = vec![Case::new(
        RegSrc::Polkadot { retain: None },
        sp.clone(),
        "D-chain full",
    )];
    let n = crate::run::polkadot_registry().types.len() as u32;
    for id in (0..n).step_by(if thorough { 1 } else { 7 }) {
        chain.push(Case::new(
            RegSrc::Polkadot { retain: Some(id) },
            sp.clone(),
            format!("D-chain retain({id})"),
        ));
    }
    report.add(sweep(
        "D-chain(polkadot full + single-id closures)",
        &chain,
        Duration::from_secs(if thorough { 600 } else { 150 }),
        |c| json!({"case": c.note}),
        |c, ctx| check(c, "chain", ctx),
    ));
}

pub fn run_c03(tier: &str, seed: u64) -> i32 {
    let mut report = Report::new("C03", tier, seed, "model_checking");
    explore_both(&mut report, tier == "thorough", seed, "C03");
    report.assumptions = vec![
        "'differently shaped' is decided by the independent shape semantics (bisimilarity of the registry shape and the interpreted Rust type), never by the implementation's own types_equal".into(),
        "the 'randomly beyond the bound' clause is not sampled; beyond the exhaustive bound only the Polkadot registry is covered".into(),
    ];
    report.finish()
}

pub fn run_c04(tier: &str, seed: u64) -> i32 {
    let mut report = Report::new("C04", tier, seed, "model_checking");
    explore_both(&mut report, tier == "thorough", seed, "C04");
    report.assumptions = vec![
        "the reference grouping ('same generic definition') is computed on the source program (twin definitions are equal up to twins); for the Polkadot registry, whose source is unknown, only the frame, sufficiency, idempotence and old-name-plus-k clauses are checked".into(),
    ];
    report.finish()
}

fn class_of(case: &Case) -> String {
    match &case.reg {
        RegSrc::Prog(p) => match program_coincident(p) {
            Some(w) => format!("coincident-generic({})", &w[..3]),
            None => {
                if p.defs.iter().any(|d| !d.params.is_empty() && d.name == "D") {
                    "generic-family".into()
                } else {
                    "plain-family".into()
                }
            }
        },
        _ => "chain".into(),
    }
}

pub fn replay_c03(case: &Case) -> Vec<Violation> {
    let mut ctx = Ctx::default();
    check_c03(case, &class_of(case), &mut ctx);
    ctx.violations
}

pub fn replay_c04(case: &Case) -> Vec<Violation> {
    let mut ctx = Ctx::default();
    check_c04(case, &class_of(case), &mut ctx);
    ctx.violations
}
