//! C18 - standalone structs built from a variant's field list are wire-faithful.

use crate::checks::c01::{root_collides, truncate};
use crate::drivers::*;
use crate::engine::*;
use crate::graph::*;
use crate::interp::*;
use crate::run::*;
use crate::settings::{squash, SettingsSpec};
use crate::shape::{bisimilar, Graph, Node, RegGraph};
use quote::ToTokens;
use scale_info::{form::PortableForm, Field, PortableRegistry, TypeDef};
use scale_typegen::typegen::ir::type_ir::CompositeIR;
use scale_typegen::typegen::ir::ToTokensWithSettings;
use scale_typegen::typegen::type_params::TypeParameters;
use scale_typegen::TypeGenerator;
use serde_json::json;
use std::collections::BTreeSet;
use std::time::Duration;

fn ty_str(t: &syn::Type) -> String {
    squash(&t.to_token_stream().to_string())
}

/// build the standalone struct exactly as downstream code does
pub fn standalone(
    reg: &PortableRegistry,
    settings: &scale_typegen::TypeGeneratorSettings,
    name: &str,
    fields: &[Field<PortableForm>],
) -> Result<Result<String, String>, String> {
    guarded(|| {
        let gen = TypeGenerator::new(reg, settings);
        let kind = gen
            .create_composite_ir_kind(fields, &mut TypeParameters::from_scale_info(&[]))
            .map_err(|e| format!("{e}"))?;
        let ident: proc_macro2::Ident = syn::parse_str(name).map_err(|e| format!("{e}"))?;
        let comp = CompositeIR::new(ident, kind, Default::default());
        let ir = gen.upcast_composite(&comp);
        Ok(ir.to_token_stream(settings).to_string())
    })
}

struct Compacted<'a, 'b> {
    inner: &'a RustGraph<'b>,
}
impl<'a, 'b> Graph for Compacted<'a, 'b> {
    /// (node, wrap in Compact?)
    type Id = (usize, bool);
    fn node(&self, id: (usize, bool)) -> Node<(usize, bool)> {
        if id.1 {
            return Node::Compact((id.0, false));
        }
        let lift = |i: usize| (i, false);
        match self.inner.node(id.0) {
            Node::Prim(p) => Node::Prim(p),
            Node::Compact(i) => Node::Compact(lift(i)),
            Node::Seq(i) => Node::Seq(lift(i)),
            Node::Array(n, i) => Node::Array(n, lift(i)),
            Node::Tuple(v) => Node::Tuple(v.into_iter().map(lift).collect()),
            Node::Composite(f) => {
                Node::Composite(f.into_iter().map(|(n, i)| (n, lift(i))).collect())
            }
            Node::Variant(vs) => Node::Variant(
                vs.into_iter()
                    .map(|(a, b, f)| (a, b, f.into_iter().map(|(n, i)| (n, lift(i))).collect()))
                    .collect(),
            ),
            Node::Bits(s, o) => Node::Bits(s, o),
            Node::Opaque(s) => Node::Opaque(s),
            Node::Broken(s) => Node::Broken(s),
        }
    }
}

pub fn check_case(case: &Case, ctx: &mut Ctx) {
    let registry = match case.registry() {
        Ok(r) => r,
        Err(_) => return,
    };
    if root_collides(&registry, &case.settings.root) {
        ctx.exclude("root module name occurs as a path segment");
        return;
    }
    let spec = &case.settings;
    let settings = spec.build();
    ctx.exec(1);
    let tokens = match generate(&registry, &settings) {
        GenOutcome::Ok { tokens } => tokens,
        _ => {
            ctx.note("generation does not succeed (C03/C10)", 1);
            return;
        }
    };
    let Ok(em) = parse_emitted(&tokens) else {
        ctx.note("module does not parse (C02)", 1);
        return;
    };
    let rust = RustGraph::new(&em, spec);
    let rust_c = Compacted { inner: &rust };
    let reg = RegGraph(&registry);
    let size = case.reg.size();
    let global_d: BTreeSet<String> = spec.derives_all.iter().map(|x| squash(x)).collect();
    let global_a: BTreeSet<String> = spec.attrs_all.iter().map(|x| squash(x)).collect();
    for t in &registry.types {
        if t.ty.path.segments.len() < 2 {
            continue;
        }
        let mut full = vec![spec.root.clone()];
        full.extend(t.ty.path.segments.iter().cloned());
        let Some(item) = em.items.get(&full) else {
            continue;
        };
        if !item.generics.is_empty() {
            continue; // the property is about items without generic parameters
        }
        // field lists: the struct's own, or one per variant
        let lists: Vec<(String, &Vec<Field<PortableForm>>, Option<&FieldsAst>)> =
            match (&t.ty.type_def, &item.kind) {
                (TypeDef::Composite(c), ItemKind::Struct(f)) => vec![(
                    item.path.last().cloned().unwrap_or_default(),
                    &c.fields,
                    Some(f),
                )],
                (TypeDef::Variant(v), ItemKind::Enum(gv)) => v
                    .variants
                    .iter()
                    .map(|x| {
                        (
                            x.name.clone(),
                            &x.fields,
                            gv.iter().find(|g| g.name == x.name).map(|g| &g.fields),
                        )
                    })
                    .collect(),
                _ => continue,
            };
        for (name, fields, emitted_fields) in lists {
            ctx.exec(1);
            let what = format!("{}::{name}", t.ty.path.segments.join("::"));
            // history: a settings object that has already built a struct, then cloned and changed (an attribute for
            // all types added / another CompactAs path), must build what fresh settings with that change build
            if fields.len() == 1 {
                let sname = if name.chars().next().map(|c| c.is_ascii_digit()).unwrap_or(true) { format!("S{name}") } else { name.clone() };
                let used = spec.build();
                let _ = standalone(&registry, &used, &sname, fields);
                let mut spec_a = spec.clone();
                spec_a.attrs_all.push("#[later]".into());
                let mut reused_a = used.clone();
                reused_a.derives.add_attributes_for_all([crate::settings::parse_attr("#[later]")]);
                let mut spec_b = spec.clone();
                spec_b.compact_as = Some("::other::CompactAs".into());
                let mut reused_b = used.clone();
                reused_b.compact_as_type_path = Some(crate::settings::parse_path("::other::CompactAs"));
                for (label, fresh, reused) in [("attribute added after first use", spec_a.build(), reused_a), ("CompactAs path changed after first use", spec_b.build(), reused_b)] {
                    ctx.exec(2);
                    let a = standalone(&registry, &fresh, &sname, fields).map(|r| r.map(|c| squash(&c)));
                    let b_ = standalone(&registry, &reused, &sname, fields).map(|r| r.map(|c| squash(&c)));
                    if a != b_ {
                        ctx.violation(
                            "C18/reused-settings",
                            format!("{what}: {label}: settings that were used before give {b_:?}, fresh settings give {a:?}"),
                            case.replay("C18"),
                            size,
                        );
                    }
                }
            }
            let replay = || {
                let mut v = case.replay("C18");
                v["list"] = json!(what);
                v
            };
            let code = match standalone(&registry, &settings, &name, fields) {
                Err(p) => {
                    ctx.violation(
                        format!("C18/panic/{}", truncate(&p, 40)),
                        format!("building the standalone struct for {what} panics: {p}"),
                        replay(),
                        size,
                    );
                    continue;
                }
                Ok(Err(e)) => {
                    ctx.violation(
                        "C18/error",
                        format!("building the standalone struct for {what} fails: {e}"),
                        replay(),
                        size,
                    );
                    continue;
                }
                Ok(Ok(c)) => c,
            };
            ctx.outcome(&squash(&code));
            let st: syn::ItemStruct = match syn::parse_str(&code) {
                Ok(s) => s,
                Err(e) => {
                    ctx.violation(
                        "C18/not-a-struct",
                        format!(
                            "standalone struct for {what} `{}` does not parse: {e}",
                            truncate(&code, 200)
                        ),
                        replay(),
                        size,
                    );
                    continue;
                }
            };
            if !st.generics.params.is_empty() {
                ctx.violation(
                    "C18/generic",
                    format!("standalone struct for {what} has generic parameters"),
                    replay(),
                    size,
                );
            }
            let got: Vec<&syn::Field> = st.fields.iter().collect();
            if got.len() != fields.len() {
                ctx.violation(
                    "C18/field-count",
                    format!(
                        "standalone struct for {what} has {} fields, the list has {} (`{}`)",
                        got.len(),
                        fields.len(),
                        truncate(&squash(&code), 200)
                    ),
                    replay(),
                    size,
                );
                continue;
            }
            for (i, (rf, gf)) in fields.iter().zip(got.iter()).enumerate() {
                let gname = gf.ident.as_ref().map(|x| x.to_string());
                if gname != rf.name {
                    ctx.violation(
                        "C18/field-name",
                        format!(
                            "{what}: field {i} is named {gname:?}, the list says {:?}",
                            rf.name
                        ),
                        replay(),
                        size,
                    );
                }
                if !matches!(gf.vis, syn::Visibility::Public(_)) {
                    ctx.violation(
                        "C18/not-pub",
                        format!("{what}: field {i} is not pub"),
                        replay(),
                        size,
                    );
                }
                let compact = gf
                    .attrs
                    .iter()
                    .any(|a| squash(&a.to_token_stream().to_string()) == "#[codec(compact)]");
                let other_attrs: Vec<String> = gf
                    .attrs
                    .iter()
                    .map(|a| squash(&a.to_token_stream().to_string()))
                    .filter(|a| a != "#[codec(compact)]" && a.starts_with("#[codec("))
                    .collect();
                if !other_attrs.is_empty() {
                    ctx.violation(
                        "C18/field-attr",
                        format!("{what}: field {i} carries {other_attrs:?}"),
                        replay(),
                        size,
                    );
                }
                // (a) shape of the field, evaluated where the root module is in scope
                if spec.codec_attrs {
                    let node = rust.node_of(&gf.ty, &[]);
                    if let Err(m) = bisimilar(&reg, rf.ty.id, &rust_c, (node, compact)) {
                        ctx.violation(
                            format!("C18/shape/{}", m.class),
                            format!(
                                "{what}: field {i} `{}`{}: at `{}` the list has {} but the standalone struct has {}",
                                ty_str(&gf.ty),
                                if compact { " (compact)" } else { "" },
                                m.at,
                                truncate(&m.left, 120),
                                truncate(&m.right, 120)
                            ),
                            replay(),
                            size,
                        );
                    }
                }
                // (a') the Box marker of the field list (the written type name, as in every well-formed registry)
                if let Some(tn) = &rf.type_name {
                    let tn = squash(tn);
                    let alloc_root = squash(spec.alloc.as_deref().unwrap_or("::std"));
                    let is_box = ty_str(&gf.ty).starts_with(&format!("{alloc_root}::boxed::Box<"));
                    let _written_box = tn.starts_with("Box<")
                        || tn.starts_with("::std::boxed::Box<")
                        || tn.starts_with("boxed::Box<");
                    let mentions_box = tn.contains("Box<");
                    // the generator's documented rule (WF4): a field is boxed iff its written type mentions a Box
                    // anywhere (the registry erased it; a cycle may depend on it), unless it is a compact field
                    let reg_compact = {
                        let mut id = rf.ty.id;
                        loop {
                            match registry.resolve(id) {
                                Some(t) if crate::shape::is_prelude_cow(t) => match t.type_params.first().and_then(|p| p.ty) {
                                    Some(inner) => id = inner.id,
                                    None => break false,
                                },
                                Some(t) => break matches!(t.type_def, TypeDef::Compact(_)),
                                None => break false,
                            }
                        }
                    };
                    if mentions_box && !compact && !reg_compact && !is_box {
                        ctx.violation(
                            "C18/box-marker/missing",
                            format!("{what}: field {i} is written `{tn}` in the list but the standalone struct has `{}`", ty_str(&gf.ty)),
                            replay(),
                            size,
                        );
                    }
                    if !mentions_box && is_box {
                        ctx.violation(
                            "C18/box-marker/spurious",
                            format!("{what}: field {i} is written `{tn}` in the list but the standalone struct boxes it: `{}`", ty_str(&gf.ty)),
                            replay(),
                            size,
                        );
                    }
                }
                // (b) token identity with the emitted item's own field
                if let Some(ef) = emitted_fields.and_then(|f| f.list().get(i)) {
                    if ty_str(&ef.ty) != ty_str(&gf.ty) {
                        ctx.violation(
                            "C18/field-type-differs-from-enum",
                            format!("{what}: field {i} is `{}` in the standalone struct but `{}` in the generated item", ty_str(&gf.ty), ty_str(&ef.ty)),
                            replay(),
                            size,
                        );
                    }
                    if ef.compact != compact {
                        ctx.violation(
                            "C18/compact-differs-from-enum",
                            format!("{what}: field {i} compact marker {} in the standalone struct, {} in the generated item", compact, ef.compact),
                            replay(),
                            size,
                        );
                    }
                }
            }
            // (c) derives and attributes: exactly the global ones plus CompactAs under the single-unsigned-field rule
            let (derive_lists, attrs, _) = {
                // reuse the interpreter's attribute splitter through a one-item module
                let wrapped = format!("pub mod w {{ {code} }}");
                match parse_emitted(&wrapped) {
                    Ok(e) => {
                        let it = e.items.values().next().cloned();
                        match it {
                            Some(it) => (it.derives(), it.attrs.clone(), it.docs.clone()),
                            None => (vec![], vec![], vec![]),
                        }
                    }
                    Err(_) => (vec![], vec![], vec![]),
                }
            };
            let got_d: BTreeSet<String> = derive_lists.into_iter().collect();
            let got_a: BTreeSet<String> = attrs.into_iter().collect();
            let mut want_d = global_d.clone();
            // a prelude `Cow<T>` is transparent (DESIGN 4.1): the field is the borrowed type
            let through_cow = |mut id: u32| loop {
                match registry.resolve(id) {
                    Some(t) if crate::shape::is_prelude_cow(t) => {
                        match t.type_params.first().and_then(|p| p.ty) {
                            Some(inner) => id = inner.id,
                            None => return id,
                        }
                    }
                    _ => return id,
                }
            };
            let single_uint = fields.len() == 1
                && matches!(
                    registry
                        .resolve(through_cow(fields[0].ty.id))
                        .map(|x| &x.type_def),
                    Some(TypeDef::Primitive(
                        scale_info::TypeDefPrimitive::U8
                            | scale_info::TypeDefPrimitive::U16
                            | scale_info::TypeDefPrimitive::U32
                            | scale_info::TypeDefPrimitive::U64
                            | scale_info::TypeDefPrimitive::U128
                    ))
                );
            if let (true, Some(ca)) = (single_uint, &spec.compact_as) {
                want_d.insert(squash(ca));
            }
            if got_d != want_d {
                ctx.violation(
                    format!(
                        "C18/derives/{}",
                        if got_d.len() > want_d.len() {
                            "extra"
                        } else {
                            "missing"
                        }
                    ),
                    format!(
                        "{what}: standalone struct derives {got_d:?}, expected exactly {want_d:?}"
                    ),
                    replay(),
                    size,
                );
            }
            if got_a != global_a {
                ctx.violation(
                    format!("C18/attributes/{}", if got_a.len() > global_a.len() { "extra" } else { "missing" }),
                    format!("{what}: standalone struct carries attributes {got_a:?}, expected exactly the global {global_a:?}"),
                    replay(),
                    size,
                );
            }
        }
    }
}

fn settings() -> Vec<(String, SettingsSpec)> {
    let mut base = SettingsSpec::faithful();
    base.attrs_all = vec!["#[g]".into(), "#[codec(crate = ::c)]".into()];
    // type-specific registrations must not leak into the standalone struct
    base.derives_for = vec![
        ("p::h::Host".into(), vec!["::s::Special".into()], false),
        ("g::m0::T0".into(), vec!["::s::Special".into()], true),
    ];
    let mut v = vec![("faithful+global-attrs+specific".to_string(), base.clone())];
    let mut s = base.clone();
    s.compact_as = None;
    v.push(("compact_as=none".into(), s));
    let mut s = base.clone();
    s.codec_attrs = false;
    v.push(("codec=off".into(), s));
    let mut s = base.clone();
    s.root = "r".into();
    s.alloc = Some("::alloc".into());
    v.push(("root=r,alloc=::alloc".into(), s));
    // attributes for all types but no derive for all types: the struct's derive list is empty unless the
    // CompactAs rule applies, its attribute list is not
    let mut s = base.clone();
    s.derives_all.clear();
    v.push(("global-attrs-without-global-derives".into(), s));
    let mut s = base;
    s.derives_all.clear();
    s.attrs_all.clear();
    v.push(("no-globals".into(), s));
    v
}

pub fn run(tier: &str, seed: u64) -> i32 {
    let mut report = Report::new("C18", tier, seed, "model_checking");
    let thorough = tier == "thorough";
    let sets = settings();
    let d = DArms { max_depth: 2 };
    let budget = Budget {
        max_depth: if thorough { 2 } else { 1 },
        wall: Duration::from_secs(if thorough { 900 } else { 150 }),
        max_states: 5_000_000,
    };
    let budget = Budget { max_depth: 2, ..budget };
    use crate::spm::Ty;
    fn mentions_box(t: &Ty) -> bool {
        match t {
            Ty::Box(_) => true,
            Ty::Named(_, a) | Ty::Tuple(a) => a.iter().any(mentions_box),
            Ty::Vec(x) | Ty::VecDeque(x) | Ty::Cow(x) | Ty::BTreeSet(x) | Ty::BinaryHeap(x) | Ty::Array(x, _) | Ty::Option(x) | Ty::Range(x) | Ty::RangeInclusive(x) | Ty::Compact(x) => mentions_box(x),
            Ty::Result(a, b_) | Ty::BTreeMap(a, b_) => mentions_box(a) || mentions_box(b_),
            _ => false,
        }
    }
    report.add(explore(&d, &budget, seed, |s, ctx| {
        // quick tier: of the twice-wrapped types only those that mention a Box (the Box marker of a field whose
        // Box sits inside a tuple, an array, an Option ...)
        if !thorough && s.depth >= 2 && !mentions_box(&s.expr) {
            return;
        }
        for (prog, pos) in arms_programs(&s.expr) {
            for (sname, spec) in &sets {
                check_case(
                    &Case::new(
                        RegSrc::Prog(prog.clone()),
                        spec.clone(),
                        format!("D-arms {pos} {sname}"),
                    ),
                    ctx,
                );
            }
        }
    }));
    let g = quick_graph(if thorough { 3 } else { 2 });
    let budget = Budget {
        max_depth: g.max_edges as u32,
        wall: Duration::from_secs(if thorough { 900 } else { 150 }),
        max_states: 5_000_000,
    };
    report.add(explore(&g, &budget, seed, |s, ctx| {
        for (sname, spec) in sets.iter().take(if thorough { 5 } else { 2 }) {
            let mut spec = spec.clone();
            spec.root = "root".into();
            check_case(
                &Case::new(RegSrc::Prog(s.program()), spec, format!("D-graph {sname}")),
                ctx,
            );
        }
    }));
    // the call / event / error enums of chain metadata
    let mut chain = vec![];
    for (sname, spec) in &sets {
        let mut spec = spec.clone();
        spec.root = "runtime_types".into();
        spec.derives_for.clear();
        let mut c = Case::new(
            RegSrc::Polkadot { retain: None },
            spec,
            format!("polkadot {sname}"),
        );
        c.dedup = true;
        chain.push(c);
    }
    for (pname, prog) in special_programs() {
        for (sname, spec) in &sets {
            let mut spec = spec.clone();
            spec.derives_for.clear();
            chain.push(Case::new(RegSrc::Prog(prog.clone()), spec, format!("{pname} {sname}")));
        }
    }
    report.add(sweep(
        "D-chain(polkadot: every variant / struct of every item without generic parameters x settings) + D-real / D-deep / degenerate registries",
        &chain,
        Duration::from_secs(120),
        |c| json!({"case": c.note}),
        check_case,
    ));
    if thorough {
        match roundtrip_tier() {
            Ok(st) => report.add(st),
            Err(e) => {
                eprintln!("machinery error: round-trip farm: {e}");
                return 2;
            }
        }
    }
    report.assumptions = vec![
        "the standalone struct is built exactly as downstream code does (create_composite_ir_kind with empty TypeParameters, CompositeIR::new, upcast_composite, to_token_stream) and interpreted in the scope where the generated root module is declared".into(),
        "encoding equality with the variant's payload follows from shape bisimilarity of every field; the compile-farm tier checks it with real encodings".into(),
    ];
    report.finish()
}

pub fn replay(case: &Case) -> Vec<Violation> {
    let mut ctx = Ctx::default();
    check_case(case, &mut ctx);
    ctx.violations
}

/// Thorough tier: the standalone structs are compiled next to the generated module with the real
/// codec derives; every enumerated payload of a variant must decode with the standalone struct,
/// consume all input and re-encode identically, and `index ++ payload` must do the same with the enum.
pub fn roundtrip_tier() -> Result<Stats, String> {
    use crate::farm::*;
    use crate::refenc::Enumerator;
    use rayon::prelude::*;
    let profile = compile_profile();
    let mut progs: Vec<(String, crate::spm::Program)> = vec![];
    let a = DArms { max_depth: 2 };
    let (all, _, _) = enumerate(&a, 1, 1_000_000);
    for (_, s) in &all {
        for (prog, pos) in arms_programs(&s.expr) {
            if pos.contains("Variant") || pos.contains("Struct") {
                progs.push((format!("D-arms {pos}"), prog));
            }
        }
    }
    let g = quick_graph(2);
    let (all, _, _) = enumerate(&g, 2, 1_000_000);
    for (_, s) in &all {
        if s.nodes.iter().any(|k| *k == NodeKind::GenericStruct) && s.cyclic_from(0) {
            continue; // recursive generics do not compile with the codec derive (known finding of C02)
        }
        if s.nodes.iter().any(|k| *k == NodeKind::Enum) {
            progs.push(("D-graph".into(), s.program()));
        }
    }
    let built: Vec<Option<RtCase>> = progs
        .par_iter()
        .map(|(label, prog)| {
            let reg = crate::spm::elaborate(prog).registry;
            let settings = profile.build();
            let tokens = match generate(&reg, &settings) {
                GenOutcome::Ok { tokens } => tokens,
                _ => return None,
            };
            if tokens.contains("primitive :: char") {
                return None;
            }
            let em = parse_emitted(&tokens).ok()?;
            let en = Enumerator { reg: &reg, cap: 8 };
            let mut extra = String::new();
            let mut tests = vec![];
            let mut k = 0;
            for t in &reg.types {
                if t.ty.path.segments.len() < 2 {
                    continue;
                }
                let mut full = vec![profile.root.clone()];
                full.extend(t.ty.path.segments.iter().cloned());
                let Some(item) = em.items.get(&full) else {
                    continue;
                };
                if !item.generics.is_empty() {
                    continue;
                }
                let lists: Vec<(Option<u8>, &Vec<Field<PortableForm>>)> = match &t.ty.type_def {
                    TypeDef::Composite(c) => vec![(None, &c.fields)],
                    TypeDef::Variant(v) => v
                        .variants
                        .iter()
                        .map(|x| (Some(x.index), &x.fields))
                        .collect(),
                    _ => continue,
                };
                for (index, fields) in lists {
                    if fields.is_empty() {
                        continue;
                    }
                    let ids: Vec<u32> = fields.iter().map(|f| f.ty.id).collect();
                    let Some(payloads) = en.product(&ids, 3) else {
                        continue;
                    };
                    if payloads.is_empty() {
                        continue;
                    }
                    let name = format!("Standalone{k}");
                    k += 1;
                    let Ok(Ok(code)) = standalone(&reg, &settings, &name, fields) else {
                        continue;
                    };
                    extra.push_str(&code);
                    extra.push(' ');
                    tests.push((t.id, name.clone(), payloads.clone()));
                    if let Some(idx) = index {
                        if let Ok(Ok(path)) = resolve_path(&reg, &settings, t.id) {
                            let with_idx: Vec<Vec<u8>> = payloads
                                .iter()
                                .map(|p| {
                                    let mut v = vec![idx];
                                    v.extend_from_slice(p);
                                    v
                                })
                                .collect();
                            tests.push((t.id, path, with_idx));
                        }
                    }
                }
            }
            if tests.is_empty() {
                return None;
            }
            let case = Case::new(
                RegSrc::Prog(prog.clone()),
                profile.clone(),
                "standalone round trip",
            );
            Some(RtCase {
                label: label.clone(),
                replay: case.replay("C18"),
                tokens: format!("{tokens} {extra}"),
                tests,
            })
        })
        .collect();
    let mut seen = std::collections::HashSet::new();
    let mut cases = vec![];
    for c in built.into_iter().flatten() {
        if seen.insert(hash128(&c.tokens)) {
            cases.push(c);
        }
    }
    let res = roundtrip(&cases, 16)?;
    let mut st = Stats {
        driver: format!(
            "round-trip farm: standalone structs of D-arms(depth<=1) and D-graph(edges<=2, with enums) compiled next to the generated module; every enumerated variant payload decoded with the standalone struct and, prefixed with the index, with the enum ({} crates)",
            res.crates
        ),
        states: cases.len() as u64,
        transitions: res.decodes,
        max_depth: 1,
        bound_completed: 1,
        exhaustive: true,
        executed: res.decodes,
        distinct_outcomes: 1 + (res.failures.len() + res.compile_errors.len()).min(1) as u64,
        wall_s: res.wall_s,
        ..Default::default()
    };
    st.samples = cases
        .iter()
        .take(2)
        .map(|c| json!({"label": c.label, "module_and_structs": truncate(&c.tokens, 500)}))
        .collect();
    let mut by: std::collections::BTreeMap<String, (u64, Violation)> = Default::default();
    for f in &res.failures {
        let c = &cases[f.case];
        let class = f.message.split(' ').nth(1).unwrap_or("failure").to_string();
        let v = Violation {
            sig: format!("C18/rustc-roundtrip/{class}"),
            detail: format!(
                "{} case, registry id {}: {} - code: {}",
                c.label,
                f.id,
                f.message,
                truncate(&c.tokens, 400)
            ),
            replay: c.replay.clone(),
            size: c.tokens.len(),
        };
        by.entry(v.sig.clone())
            .and_modify(|e| e.0 += 1)
            .or_insert((1, v));
    }
    for e in &res.compile_errors {
        let c = &cases[e.case];
        let v = Violation {
            sig: format!("C18/rustc/{}", e.code),
            detail: format!("{} case: the standalone structs do not compile next to the generated module: {} - code: {}", c.label, e.message, truncate(&c.tokens, 400)),
            replay: c.replay.clone(),
            size: c.tokens.len(),
        };
        by.entry(v.sig.clone())
            .and_modify(|e| e.0 += 1)
            .or_insert((1, v));
    }
    st.violations = by
        .into_values()
        .map(|(n, mut v)| {
            v.detail = format!("{} ({n} fail this way)", v.detail);
            v
        })
        .collect();
    Ok(st)
}
