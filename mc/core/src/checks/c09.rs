//! C09 - settings switches are honoured everywhere and are orthogonal.
//! Every vertex of the switch cube is explored for every registry of the driver, and every cube
//! edge is a transition checked metamorphically (no expected literal).

use crate::checks::c01::truncate;
use crate::drivers::*;
use crate::engine::*;
use crate::interp::*;
use crate::run::*;
use crate::settings::{squash, SettingsSpec};
use crate::spm::*;
use proc_macro2::{Delimiter, TokenStream, TokenTree};
use scale_info::TypeDef;
use serde::{Deserialize, Serialize};
use serde_json::json;
use std::collections::HashMap;
use std::time::Duration;

/// one vertex of the cube: index per switch
#[derive(Clone, Copy, Debug, PartialEq, Eq, Hash, Serialize, Deserialize)]
pub struct Vertex {
    pub alloc: u8,   // 0 std, 1 ::alloc, 2 ::a::b, 3 crate::al (a path that is not global), 4 al::loc (a relative path)
    pub docs: u8,    // 0 off, 1 on
    pub codec: u8,   // 0 off, 1 on
    pub root: u8,    // 0 types, 1 r, 2 p (the name of the crate the registry's types live in)
    pub compact: u8, // 0 none, 1 set
    pub bits: u8,    // 0 none, 1 set
    pub subst: u8, // 0 none, 1 `p::a::G<T> -> ::ext::Static<T, ::ext::Inner<::ext::Deep<T>>>` (parameter at top level and nested)
}
const DIMS: [(&str, u8); 7] = [
    ("alloc", 5),
    ("docs", 2),
    ("codec", 2),
    ("root", 3),
    ("compact", 2),
    ("bits", 2),
    ("subst", 2),
];

impl Vertex {
    fn get(&self, d: usize) -> u8 {
        [
            self.alloc,
            self.docs,
            self.codec,
            self.root,
            self.compact,
            self.bits,
            self.subst,
        ][d]
    }
    fn set(&self, d: usize, v: u8) -> Vertex {
        let mut a = [
            self.alloc,
            self.docs,
            self.codec,
            self.root,
            self.compact,
            self.bits,
            self.subst,
        ];
        a[d] = v;
        Vertex {
            alloc: a[0],
            docs: a[1],
            codec: a[2],
            root: a[3],
            compact: a[4],
            bits: a[5],
            subst: a[6],
        }
    }
    /// the sub-cube used for generic definitions: alloc {std, ::a::b} x docs x codec x root, compact and
    /// bits paths set, no substitute
    pub fn generic_subcube() -> Vec<Vertex> {
        Vertex::all()
            .into_iter()
            .filter(|v| {
                v.alloc != 1
                    && v.alloc != 3
                    && v.root != 1
                    && v.compact == 1
                    && v.bits == 1
                    && v.subst == 0
            })
            .collect()
    }
    pub fn all() -> Vec<Vertex> {
        let mut v = vec![Vertex {
            alloc: 0,
            docs: 0,
            codec: 0,
            root: 0,
            compact: 0,
            bits: 0,
            subst: 0,
        }];
        for (d, (_, n)) in DIMS.iter().enumerate() {
            let mut next = vec![];
            for x in &v {
                for k in 0..*n {
                    next.push(x.set(d, k));
                }
            }
            v = next;
        }
        v
    }
    fn alloc_prefix(&self) -> &'static str {
        ["::std", "::alloc", "::a::b", "crate::al", "al::loc"][self.alloc as usize]
    }
    fn root_name(&self) -> &'static str {
        ["types", "r", "p"][self.root as usize]
    }
    pub fn spec(&self) -> SettingsSpec {
        let mut s = SettingsSpec::faithful();
        s.alloc = match self.alloc {
            0 => None,
            1 => Some("::alloc".into()),
            2 => Some("::a::b".into()),
            3 => Some("crate::al".into()),
            _ => Some("al::loc".into()),
        };
        s.docs = self.docs == 1;
        s.codec_attrs = self.codec == 1;
        s.root = self.root_name().into();
        if self.compact == 0 {
            s.compact_path = None;
        }
        if self.bits == 0 {
            s.bits_path = None;
        }
        if self.subst == 1 {
            s.substitutes.push((
                "p::a::G<T>".into(),
                "::ext::Static<T, ::ext::Inner<::ext::Deep<T>>>".into(),
            ));
        }
        s
    }
}

/// drop every `#[name ...]` attribute (at any depth) from a token stream
fn strip_attr(ts: TokenStream, name: &str) -> TokenStream {
    let mut out = vec![];
    let mut it = ts.into_iter().peekable();
    while let Some(t) = it.next() {
        match &t {
            TokenTree::Punct(p) if p.as_char() == '#' => {
                if let Some(TokenTree::Group(g)) = it.peek() {
                    if g.delimiter() == Delimiter::Bracket {
                        let first = g.stream().into_iter().next();
                        if matches!(&first, Some(TokenTree::Ident(i)) if i == name) {
                            it.next();
                            continue;
                        }
                    }
                }
                out.push(t);
            }
            TokenTree::Group(g) => {
                let inner = strip_attr(g.stream(), name);
                let mut ng = proc_macro2::Group::new(g.delimiter(), inner);
                ng.set_span(g.span());
                out.push(TokenTree::Group(ng));
            }
            _ => out.push(t),
        }
    }
    out.into_iter().collect()
}

fn rename_ident(ts: TokenStream, from: &str, to: &str) -> TokenStream {
    ts.into_iter()
        .map(|t| match t {
            TokenTree::Ident(i) if i == from => {
                TokenTree::Ident(proc_macro2::Ident::new(to, i.span()))
            }
            TokenTree::Group(g) => TokenTree::Group(proc_macro2::Group::new(
                g.delimiter(),
                rename_ident(g.stream(), from, to),
            )),
            other => other,
        })
        .collect()
}

fn has_ident(ts: TokenStream, name: &str) -> bool {
    ts.into_iter().any(|t| match t {
        TokenTree::Ident(i) => i == name,
        TokenTree::Group(g) => has_ident(g.stream(), name),
        _ => false,
    })
}

#[derive(Clone, Debug, Serialize, Deserialize)]
pub struct SwitchCase {
    pub prog: Program,
    /// explore only the generic sub-cube (16 vertices)
    #[serde(default)]
    pub subcube: bool,
}

fn heap_suffixes() -> Vec<&'static str> {
    vec![
        "::vec::Vec",
        "::string::String",
        "::boxed::Box",
        "::borrow::Cow",
        "::collections::BTreeMap",
        "::collections::BTreeSet",
        "::collections::BinaryHeap",
        "::collections::VecDeque",
        "::collections::LinkedList",
    ]
}

fn collect_paths(ty: &syn::Type, out: &mut Vec<String>) {
    match ty {
        syn::Type::Paren(p) => collect_paths(&p.elem, out),
        syn::Type::Tuple(t) => t.elems.iter().for_each(|e| collect_paths(e, out)),
        syn::Type::Array(a) => collect_paths(&a.elem, out),
        syn::Type::Path(p) => {
            out.push(path_key(&p.path));
            for seg in &p.path.segments {
                if let syn::PathArguments::AngleBracketed(a) = &seg.arguments {
                    for g in &a.args {
                        if let syn::GenericArgument::Type(t) = g {
                            collect_paths(t, out);
                        }
                    }
                }
            }
        }
        _ => {}
    }
}

/// per-vertex oracle
fn check_vertex(
    v: &Vertex,
    prog: &Program,
    tokens: &str,
    ctx: &mut Ctx,
    replay: &dyn Fn(&Vertex) -> serde_json::Value,
) {
    let ts: TokenStream = tokens.parse().unwrap_or_default();
    let em = match parse_emitted(tokens) {
        Ok(e) => e,
        Err(e) => {
            ctx.violation("C09/unparsable", e, replay(v), 1);
            return;
        }
    };
    let size = prog.to_source().len();
    // docs off: no doc attribute anywhere (items, variants, fields)
    if v.docs == 0 && squash(&strip_attr(ts.clone(), "doc").to_string()) != squash(&ts.to_string()) {
        ctx.violation(
            "C09/docs/docs-emitted-when-off",
            "docs are switched off but the output contains a #[doc = ..] attribute".to_string(),
            replay(v),
            size,
        );
    }
    // codec off: no codec attribute anywhere (fields, variants, items, marker fields)
    if v.codec == 0
        && squash(&strip_attr(ts.clone(), "codec").to_string()) != squash(&ts.to_string())
    {
        ctx.violation(
            "C09/codec/attribute-emitted-when-off",
            "codec attributes are switched off but the output contains a #[codec(..)] attribute"
                .to_string(),
            replay(v),
            size,
        );
    }
    // alloc
    if v.alloc != 0 && has_ident(ts.clone(), "std") {
        ctx.violation(
            "C09/alloc/std-leaks",
            format!(
                "custom alloc path {} but `std` occurs in the output",
                v.alloc_prefix()
            ),
            replay(v),
            size,
        );
    }
    let prefix = squash(v.alloc_prefix());
    for item in em.items.values() {
        let fields: Vec<&FieldAst> = match &item.kind {
            ItemKind::Struct(f) => f.list().iter().collect(),
            ItemKind::Enum(vs) => vs.iter().flat_map(|x| x.fields.list().iter()).collect(),
        };
        for f in fields {
            let mut paths = vec![];
            collect_paths(&f.ty, &mut paths);
            for p in paths {
                for suf in heap_suffixes() {
                    if p.ends_with(suf) && p != format!("{prefix}{suf}") {
                        ctx.violation(
                            "C09/alloc/not-rooted-at-alloc-path",
                            format!(
                                "`{p}` in {} is not rooted at the configured alloc path {prefix}",
                                item.path.join("::")
                            ),
                            replay(v),
                            size,
                        );
                    }
                }
            }
        }
    }
    // docs
    let el = elaborate(prog);
    for def in &prog.defs {
        let mut p = vec![v.root_name().to_string()];
        p.extend(def.path());
        let Some(item) = em.items.get(&p) else {
            continue;
        };
        let want: Vec<String> = if v.docs == 1 {
            def.docs.clone()
        } else {
            vec![]
        };
        if item.docs != want {
            ctx.violation(
                format!(
                    "C09/docs/{}",
                    if v.docs == 1 {
                        "item-docs-differ"
                    } else {
                        "docs-emitted-when-off"
                    }
                ),
                format!(
                    "{} carries docs {:?}, registry has {:?} (docs switch {})",
                    def.name, item.docs, def.docs, v.docs
                ),
                replay(v),
                size,
            );
        }
        if let (ItemKind::Enum(vs), Body::Enum(src)) = (&item.kind, &def.body) {
            for (gv, sv) in vs.iter().zip(src.iter()) {
                let want: Vec<String> = if v.docs == 1 { sv.docs.clone() } else { vec![] };
                if gv.docs != want {
                    ctx.violation(
                        format!(
                            "C09/docs/{}",
                            if v.docs == 1 {
                                "variant-docs-differ"
                            } else {
                                "docs-emitted-when-off"
                            }
                        ),
                        format!(
                            "variant {}::{} carries docs {:?}, registry has {:?}",
                            def.name, sv.name, gv.docs, sv.docs
                        ),
                        replay(v),
                        size,
                    );
                }
            }
        }
    }
    // fields whose generated type is a bare parameter: whether they are compact is a fact of the SOURCE definition
    // (`#[codec(compact)] f: T` / `f: Compact<T>`), not of the instantiation (`f: T` with `T = Compact<u32>` has the
    // same registry entry); decided on the source program
    if v.codec == 1 {
        for def in &prog.defs {
            let mut p = vec![v.root_name().to_string()];
            p.extend(def.path());
            let Some(item) = em.items.get(&p) else { continue };
            let src_lists: Vec<Vec<&Field>> = match &def.body {
                Body::Struct(f) => vec![f.iter().map(|(_, f)| f).collect()],
                Body::Enum(vs) => vs.iter().map(|x| x.fields.iter().map(|(_, f)| f).collect()).collect(),
            };
            let gen_lists: Vec<&[FieldAst]> = match &item.kind {
                ItemKind::Struct(f) => vec![f.list()],
                ItemKind::Enum(vs) => vs.iter().map(|x| x.fields.list()).collect(),
            };
            for (sl, gl) in src_lists.iter().zip(gen_lists.iter()) {
                let sl: Vec<&&Field> = sl.iter().filter(|f| !matches!(f.ty, Ty::Phantom(_))).collect();
                for (sf, gf) in sl.iter().zip(gl.iter()) {
                    let ty = &gf.ty;
                    let g = squash(&quote::quote!(#ty).to_string());
                    let is_param = g.starts_with('_') && g[1..].chars().all(|c| c.is_ascii_digit());
                    if !is_param {
                        continue;
                    }
                    let want = sf.compact || matches!(&sf.ty, Ty::Compact(x) if matches!(**x, Ty::Param(_)));
                    if want != gf.compact {
                        ctx.violation(
                            if want { "C09/codec/compact-marker-missing" } else { "C09/codec/compact-marker-spurious" },
                            format!(
                                "{}: the source field is {}compact (`{}`) but the generated parameter-typed field {} #[codec(compact)]",
                                def.name,
                                if want { "" } else { "not " },
                                prog.ty_src(&sf.ty, None),
                                if gf.compact { "carries" } else { "lacks" }
                            ),
                            replay(v),
                            size,
                        );
                    }
                }
            }
        }
    }
    // the second generation entry point (a standalone struct from a field list: create_composite_ir_kind +
    // upcast_composite) obeys the codec switch too, whatever derives are configured
    for t in &el.registry.types {
        if t.ty.path.segments.last().map(|l| l != "Host").unwrap_or(true) || !t.ty.type_params.is_empty() {
            continue;
        }
        let lists: Vec<&Vec<scale_info::Field<scale_info::form::PortableForm>>> = match &t.ty.type_def {
            TypeDef::Composite(c) => vec![&c.fields],
            TypeDef::Variant(vs) => vs.variants.iter().map(|x| &x.fields).collect(),
            _ => vec![],
        };
        for with_derives in [true, false] {
            let mut spec = v.spec();
            if !with_derives {
                spec.derives_all.clear();
                spec.compact_as = None;
            }
            let settings = spec.build();
            for fields in &lists {
                if fields.is_empty() {
                    continue;
                }
                let Ok(Ok(code)) = crate::checks::c18::standalone(&el.registry, &settings, "S", fields) else {
                    continue; // failures of this entry point are C18's / C10's subject
                };
                let Ok(st) = syn::parse_str::<syn::ItemStruct>(&code) else { continue };
                for (rf, gf) in fields.iter().zip(st.fields.iter()) {
                    let codec_attrs: Vec<String> = gf
                        .attrs
                        .iter()
                        .map(|a| squash(&quote::quote!(#a).to_string()))
                        .filter(|a| a.starts_with("#[codec("))
                        .collect();
                    let reg_compact = {
                        let mut id = rf.ty.id;
                        loop {
                            match el.registry.resolve(id) {
                                Some(t) if crate::shape::is_prelude_cow(t) => match t.type_params.first().and_then(|p| p.ty) {
                                    Some(inner) => id = inner.id,
                                    None => break false,
                                },
                                Some(t) => break matches!(t.type_def, TypeDef::Compact(_)),
                                None => break false,
                            }
                        }
                    };
                    if v.codec == 0 && !codec_attrs.is_empty() {
                        ctx.violation(
                            "C09/codec/standalone/attribute-emitted-when-off",
                            format!("standalone struct (derives configured: {with_derives}) carries {codec_attrs:?} although codec attributes are off"),
                            replay(v),
                            size,
                        );
                    }
                    if v.codec == 1 && reg_compact != codec_attrs.iter().any(|a| a == "#[codec(compact)]") {
                        ctx.violation(
                            "C09/codec/standalone/compact-marker",
                            format!(
                                "standalone struct (derives configured: {with_derives}): field `{}` is {}compact in the field list but carries {codec_attrs:?}",
                                rf.name.clone().unwrap_or_default(),
                                if reg_compact { "" } else { "not " }
                            ),
                            replay(v),
                            size,
                        );
                    }
                }
            }
        }
    }
    // codec attributes against the registry
    for t in &el.registry.types {
        if t.ty.path.segments.len() < 2 {
            continue;
        }
        let mut p = vec![v.root_name().to_string()];
        p.extend(t.ty.path.segments.iter().cloned());
        let Some(item) = em.items.get(&p) else {
            continue;
        };
        // a prelude `Cow<T>` is transparent: the field is compact when the borrowed type is
        let is_compact = |id: u32| {
            let mut id = id;
            loop {
                let Some(t) = el.registry.resolve(id) else {
                    return false;
                };
                if crate::shape::is_prelude_cow(t) {
                    if let Some(Some(inner)) = t.type_params.first().map(|p| p.ty) {
                        id = inner.id;
                        continue;
                    }
                }
                return matches!(t.type_def, TypeDef::Compact(_));
            }
        };
        // a field whose type is a parameter of the definition is compact or not per instantiation, not per field
        let is_param = |gf: &FieldAst| {
            let ty = &gf.ty;
            let s = squash(&quote::quote!(#ty).to_string());
            s.starts_with('_') && s[1..].chars().all(|c| c.is_ascii_digit())
        };
        let mut check_fields = |fs: &[scale_info::Field<scale_info::form::PortableForm>],
                                gs: &[FieldAst],
                                what: &str,
                                ctx: &mut Ctx| {
            for (rf, gf) in fs.iter().zip(gs.iter()) {
                let has_codec = gf.attrs.iter().any(|a| a.starts_with("#[codec("));
                if v.codec == 0 && has_codec {
                    ctx.violation(
                        "C09/codec/attribute-emitted-when-off",
                        format!("{what}: field carries {:?}", gf.attrs),
                        replay(v),
                        size,
                    );
                }
                if is_param(gf) {
                    continue;
                }
                if v.codec == 1 && is_compact(rf.ty.id) && !gf.compact {
                    ctx.violation(
                        "C09/codec/compact-marker-missing",
                        format!("{what}: compact field without #[codec(compact)]"),
                        replay(v),
                        size,
                    );
                }
                if v.codec == 1 && !is_compact(rf.ty.id) && gf.compact {
                    ctx.violation(
                        "C09/codec/compact-marker-spurious",
                        format!("{what}: non-compact field with #[codec(compact)]"),
                        replay(v),
                        size,
                    );
                }
            }
        };
        match (&t.ty.type_def, &item.kind) {
            (TypeDef::Composite(c), ItemKind::Struct(f)) => {
                check_fields(&c.fields, f.list(), &item.path.join("::"), ctx)
            }
            (TypeDef::Variant(rv), ItemKind::Enum(gv)) => {
                for (r, g) in rv.variants.iter().zip(gv.iter()) {
                    let idx_attr = g.attrs.iter().find(|a| a.starts_with("#[codec(index"));
                    if v.codec == 0 && g.attrs.iter().any(|a| a.starts_with("#[codec(")) {
                        ctx.violation(
                            "C09/codec/attribute-emitted-when-off",
                            format!("variant {} carries {:?}", g.name, g.attrs),
                            replay(v),
                            size,
                        );
                    }
                    if v.codec == 1 && g.index != Some(r.index) {
                        ctx.violation(
                            "C09/codec/variant-index",
                            format!(
                                "variant {}::{} has index attribute {:?}, registry index {}",
                                item.path.join("::"),
                                r.name,
                                idx_attr,
                                r.index
                            ),
                            replay(v),
                            size,
                        );
                    }
                    check_fields(
                        &r.fields,
                        g.fields.list(),
                        &format!("{}::{}", item.path.join("::"), r.name),
                        ctx,
                    );
                }
            }
            _ => {}
        }
    }
}

pub fn check_case(c: &SwitchCase, ctx: &mut Ctx) {
    let reg = elaborate(&c.prog).registry;
    let replay = |v: &Vertex| json!({"check": "C09", "case": serde_json::to_value(c).unwrap(), "vertex": serde_json::to_value(v).unwrap(), "source": c.prog.to_source()});
    let mut out: HashMap<Vertex, Result<String, String>> = HashMap::new();
    let vertices = if c.subcube {
        Vertex::generic_subcube()
    } else {
        Vertex::all()
    };
    for v in vertices.iter().copied() {
        ctx.exec(1);
        let r = match generate(&reg, &v.spec().build()) {
            GenOutcome::Ok { tokens } => Ok(tokens),
            GenOutcome::Err(e) => Err(e.name()),
            GenOutcome::Panic(p) => {
                ctx.violation(
                    "C09/panic",
                    format!("generation panics at vertex {v:?}: {}", truncate(&p, 80)),
                    replay(&v),
                    1,
                );
                Err("PANIC".into())
            }
        };
        if let Ok(t) = &r {
            check_vertex(&v, &c.prog, t, ctx, &replay);
        }
        out.insert(v, r);
    }
    // a settings object that has already been used, cloned, with ONE field flipped, must generate what fresh
    // settings with that field generate (nothing computed under the old value may be carried along)
    for v in vertices.iter().copied() {
        if v.alloc != 0 || v.root != 0 || v.docs != 0 {
            continue;
        }
        let used = v.spec().build();
        ctx.exec(1);
        let _ = generate(&reg, &used);
        for (d, (dname, n)) in DIMS.iter().enumerate() {
            if !matches!(*dname, "alloc" | "root" | "docs" | "codec") {
                continue;
            }
            for k in 1..*n {
                if k == v.get(d) {
                    continue;
                }
                let w = v.set(d, k);
                let Some(Ok(fresh)) = out.get(&w) else { continue };
                let target = w.spec().build();
                let mut reused = used.clone();
                match *dname {
                    "alloc" => reused.alloc_crate_path = target.alloc_crate_path.clone(),
                    "root" => reused.types_mod_ident = target.types_mod_ident.clone(),
                    "docs" => reused.should_gen_docs = target.should_gen_docs,
                    _ => reused.insert_codec_attributes = target.insert_codec_attributes,
                }
                ctx.exec(1);
                let got = match generate(&reg, &reused) {
                    GenOutcome::Ok { tokens } => squash(&tokens),
                    other => format!("{other:?}"),
                };
                if got != squash(fresh) {
                    ctx.violation(
                        format!("C09/reused-settings/{dname}"),
                        format!("settings used once at {v:?}, cloned, `{dname}` set as in {w:?}: the output differs from what fresh settings give"),
                        replay(&w),
                        c.prog.to_source().len(),
                    );
                }
            }
        }
    }
    // edges
    let size = c.prog.to_source().len();
    for v in vertices.iter().copied() {
        for (d, (dname, n)) in DIMS.iter().enumerate() {
            for k in (v.get(d) + 1)..*n {
                let w = v.set(d, k);
                if !out.contains_key(&w) {
                    continue;
                }
                ctx.note("cube edges checked", 1);
                let (Ok(a), Ok(b)) = (&out[&v], &out[&w]) else {
                    match (&out[&v], &out[&w]) {
                        (Err(x), Err(y)) if x != y => ctx.violation(
                            format!("C09/edge/{dname}/different-errors"),
                            format!("{v:?} fails with {x}, neighbour {w:?} with {y}"),
                            replay(&v),
                            size,
                        ),
                        _ => {}
                    }
                    continue;
                };
                let ta: TokenStream = a.parse().unwrap_or_default();
                let tb: TokenStream = b.parse().unwrap_or_default();
                let (ra, rb): (String, String) = match *dname {
                    "alloc" => {
                        let pa = squash(v.alloc_prefix());
                        let pb = squash(w.alloc_prefix());
                        (
                            squash(a).replace(&format!("{pa}::"), &format!("{pb}::")),
                            squash(b),
                        )
                    }
                    "docs" => (
                        squash(&ta.to_string()),
                        squash(&strip_attr(tb, "doc").to_string()),
                    ),
                    "codec" => (
                        squash(&ta.to_string()),
                        squash(&strip_attr(tb, "codec").to_string()),
                    ),
                    "root" => (
                        squash(&rename_ident(ta, v.root_name(), w.root_name()).to_string()),
                        squash(&tb.to_string()),
                    ),
                    // a path that nothing in this registry needs: the output must not change at all
                    "compact" | "bits" => (squash(a), squash(b)),
                    // the substitute governs the uses of `G` and its definition; compared only when G is absent
                    _ => {
                        if a.contains(" G ") || a.contains("Static") || b.contains("Static") {
                            continue;
                        }
                        (squash(a), squash(b))
                    }
                };
                if ra != rb {
                    let i = ra
                        .chars()
                        .zip(rb.chars())
                        .position(|(x, y)| x != y)
                        .unwrap_or(ra.len().min(rb.len()));
                    let lo = i.saturating_sub(50);
                    ctx.violation(
                        format!("C09/edge/{dname}"),
                        format!(
                            "flipping `{dname}` ({v:?} -> {w:?}) changes more than the tokens it governs: …{}… vs …{}…",
ra.chars().skip(lo).take(140).collect::<String>(),
                            rb.chars().skip(lo).take(140).collect::<String>()
                        ),
                        replay(&v),
                        size,
                    );
                }
            }
        }
    }
    ctx.outcome(
        &out.values()
            .filter_map(|x| x.as_ref().ok().map(|s| squash(s)))
            .collect::<Vec<_>>(),
    );
}

fn mentions_heap(t: &Ty) -> bool {
    match t {
        Ty::Vec(_)
        | Ty::VecDeque(_)
        | Ty::Box(_)
        | Ty::CowStr
        | Ty::CowBytes
        | Ty::Cow(_)
        | Ty::BTreeMap(..)
        | Ty::BTreeSet(_)
        | Ty::BinaryHeap(_) => true,
        Ty::Prim(Prim::Str) => true,
        Ty::Named(_, a) | Ty::Tuple(a) => a.iter().any(mentions_heap),
        Ty::Array(x, _) | Ty::Option(x) | Ty::Range(x) | Ty::RangeInclusive(x) | Ty::Compact(x) => {
            mentions_heap(x)
        }
        Ty::Result(a, b_) => mentions_heap(a) || mentions_heap(b_),
        _ => false,
    }
}

pub fn run(tier: &str, seed: u64) -> i32 {
    let mut report = Report::new("C09", tier, seed, "model_checking");
    let thorough = tier == "thorough";
    let d = DArms { max_depth: 2 };
    let (all, _, _) = enumerate(&d, 2, 1_000_000);
    let mut cases = vec![];
    fn mentions_compact(t: &Ty) -> bool {
        match t {
            Ty::Compact(_) => true,
            Ty::Named(_, a) | Ty::Tuple(a) => a.iter().any(mentions_compact),
            Ty::Vec(x)
            | Ty::VecDeque(x)
            | Ty::Box(x)
            | Ty::Cow(x)
            | Ty::BTreeSet(x)
            | Ty::BinaryHeap(x)
            | Ty::Array(x, _)
            | Ty::Option(x)
            | Ty::Range(x)
            | Ty::RangeInclusive(x) => mentions_compact(x),
            Ty::Result(a, b_) | Ty::BTreeMap(a, b_) => mentions_compact(a) || mentions_compact(b_),
            _ => false,
        }
    }
    for (depth, s) in &all {
        // every heap-allocated prelude type at field level, nested and as a generic argument;
        // plus all depth-0 leaves (compact, bit sequences, docs)
        if !(mentions_heap(&s.expr) || *depth == 0) {
            continue;
        }
        // quick tier: of the twice-wrapped types only those around a compact (the codec switch meets a wrapper)
        if !thorough && *depth >= 2 && !mentions_compact(&s.expr) {
            continue;
        }
        for pos in [
            Position::NamedStruct,
            Position::TupleVariant,
            Position::NamedVariant,
        ] {
            if !thorough && *depth >= 1 && pos == Position::NamedVariant {
                continue;
            }
            let mut prog = arms_program(&s.expr, pos, false, "N");
            // a multi-paragraph doc comment (blank line) on the host and on a helper
            if let Some(h) = prog.defs.last_mut() {
                h.docs = vec![
                    "host doc".into(),
                    "".into(),
                    "second paragraph".into(),
                    // characters that need escaping in a doc attribute, a comment terminator, braces, non-ASCII
                    " with \"quotes\", a \\ backslash and */ {braces} \u{e9}\u{fc}\u{4e16}".into(),
                    "".into(),
                ];
            }
            // round 10 (C09-m19): a blank line FIRST and a blank line LAST (what a closing `///` leaves in the registry):
            // exactly the registry's lines, also the empty ones at either end
            prog.defs[D_N].docs = vec!["".into(), " indented".into(), "".into()];
            for d in prog.defs.iter_mut() {
                if let Body::Enum(vs) = &mut d.body {
                    for (k, v) in vs.iter_mut().enumerate() {
                        if k % 2 == 0 {
                            v.docs.push("".into());
                        } else {
                            v.docs.insert(0, "".into());
                        }
                    }
                }
            }
            // docs on FIELDS: the generator does not emit them when docs are on; they must not appear when docs are off
            for d in prog.defs.iter_mut() {
                match &mut d.body {
                    Body::Struct(Fields::Named(fs)) => fs.iter_mut().for_each(|(_, f)| f.docs = vec!["field doc".into()]),
                    Body::Struct(Fields::Unnamed(fs)) => fs.iter_mut().for_each(|f| f.docs = vec!["field doc".into()]),
                    Body::Enum(vs) => {
                        for v in vs.iter_mut() {
                            match &mut v.fields {
                                Fields::Named(fs) => fs.iter_mut().for_each(|(_, f)| f.docs = vec!["variant field doc".into()]),
                                Fields::Unnamed(fs) => fs.iter_mut().for_each(|f| f.docs = vec!["variant field doc".into()]),
                                Fields::Unit => {}
                            }
                        }
                    }
                    _ => {}
                }
            }
            cases.push(SwitchCase {
                prog,
                subcube: false,
            });
        }
    }
    for (_, prog) in special_programs() {
        cases.push(SwitchCase { prog, subcube: false });
    }
    let n_vertices = Vertex::all().len();
    let mut st = sweep(
        &format!(
            "D-arms(heap types at field level / nested / generic argument / substituted parameter) x full switch cube ({n_vertices} vertices, every edge a transition)"
        ),
        &cases,
        Duration::from_secs(if thorough { 1200 } else { 150 }),
        |c| json!({"program": c.prog.to_source()}),
        check_case,
    );
    st.states = st.states * n_vertices as u64;
    st.transitions = st.notes.get("cube edges checked").copied().unwrap_or(0);
    report.add(st);
    // generic definitions (unused / skipped parameters, marker fields, compact parameters) through the sub-cube
    let dg = crate::families::DGeneric {
        max_fields: 2,
        max_insts: 2,
        include_cf3: false,
        body_forms: crate::families::ALL_BODY_FORMS.to_vec(),
        param_forms: crate::families::ALL_PARAM_FORMS.to_vec(),
    };
    let (gall, _, _) = enumerate(&dg, 2, 2_000_000);
    // quick tier: depth 1, and of depth 2 the definitions with one field that the CompactAs rule or the marker
    // rule looks at (an unsigned integer, a compact field, a PhantomData) and one instantiation - there the
    // parameter is unused and the item ends in a marker field
    let special = |f: &crate::spm::Field| {
        matches!(f.ty, crate::spm::Ty::Phantom(_) | crate::spm::Ty::Prim(_) | crate::spm::Ty::Compact(_)) || f.compact
    };
    let gcases: Vec<SwitchCase> = gall
        .iter()
        .filter(|(_, s)| crate::checks::c05::wf5_ok(s))
        .filter(|(_, s)| {
            thorough
                || s.fields.len() + s.insts.len() <= 1
                || (s.fields.len() == 1 && s.insts.len() == 1 && special(&s.fields[0]))
        })
        .map(|(_, s)| SwitchCase {
            prog: s.program(),
            subcube: true,
        })
        .collect();
    let n_sub = Vertex::generic_subcube().len();
    let mut st = sweep(
        &format!("D-generic(construction depth <= {}; quick: depth 2 only for single unsigned / compact / marker fields) x generic sub-cube ({n_sub} vertices: alloc x docs x codec x root; every edge a transition)", if thorough { 2 } else { 1 }),
        &gcases,
        Duration::from_secs(if thorough { 1200 } else { 150 }),
        |c| json!({"program": c.prog.to_source()}),
        check_case,
    );
    st.states = st.states * n_sub as u64;
    st.transitions = st.notes.get("cube edges checked").copied().unwrap_or(0);
    report.add(st);
    report.assumptions = vec![
        "edges are checked metamorphically: the governed tokens of one endpoint (alloc prefix, doc attributes, codec attributes, root identifier) are rewritten and must give the other endpoint token for token".into(),
        "vertices whose compact / bits path is unset fail with the documented error on registries that need it; edges between a failing and a succeeding vertex are not compared".into(),
    ];
    report.finish()
}

pub fn replay(v: &serde_json::Value) -> Result<Vec<Violation>, String> {
    let c: SwitchCase = serde_json::from_value(v["case"].clone()).map_err(|e| e.to_string())?;
    let mut ctx = Ctx::default();
    check_case(&c, &mut ctx);
    Ok(ctx.violations)
}
