//! C17 - output depends only on the type graph: renumbering, order, restriction.

use crate::checks::c01::truncate;
use crate::checks::c05::wf5_ok;
use crate::drivers::*;
use crate::engine::*;
use crate::families::*;
use crate::graph::*;
use crate::run::*;
use crate::settings::{squash, SettingsSpec};
use crate::spm::*;
use scale_info::{PortableRegistry, TypeDef};
use serde::{Deserialize, Serialize};
use serde_json::json;
use std::collections::{BTreeMap, BTreeSet, HashSet, VecDeque};
use std::time::Duration;

/// registry with entry `i` moved to position `perm[i]` and every id renumbered consistently
pub fn permute(reg: &PortableRegistry, perm: &[u32]) -> PortableRegistry {
    let n = reg.types.len();
    let mut slots: Vec<Option<scale_info::PortableType>> = vec![None; n];
    let m = |id: u32| -> u32 { perm.get(id as usize).copied().unwrap_or(id) };
    for t in &reg.types {
        let mut t = t.clone();
        let old = t.id;
        t.id = m(old);
        for p in t.ty.type_params.iter_mut() {
            if let Some(x) = p.ty {
                p.ty = Some(m(x.id).into());
            }
        }
        let fix = |fs: &mut Vec<scale_info::Field<scale_info::form::PortableForm>>| {
            for f in fs.iter_mut() {
                f.ty = m(f.ty.id).into();
            }
        };
        match &mut t.ty.type_def {
            TypeDef::Composite(c) => fix(&mut c.fields),
            TypeDef::Variant(v) => v.variants.iter_mut().for_each(|v| fix(&mut v.fields)),
            TypeDef::Sequence(s) => s.type_param = m(s.type_param.id).into(),
            TypeDef::Array(a) => a.type_param = m(a.type_param.id).into(),
            TypeDef::Tuple(tu) => tu.fields.iter_mut().for_each(|f| *f = m(f.id).into()),
            TypeDef::Compact(c) => c.type_param = m(c.type_param.id).into(),
            TypeDef::BitSequence(b) => {
                b.bit_store_type = m(b.bit_store_type.id).into();
                b.bit_order_type = m(b.bit_order_type.id).into();
            }
            TypeDef::Primitive(_) => {}
        }
        slots[m(old) as usize] = Some(t);
    }
    PortableRegistry {
        types: slots
            .into_iter()
            .map(|t| t.expect("permutation is a bijection"))
            .collect(),
    }
}

fn spec() -> SettingsSpec {
    let mut s = SettingsSpec::faithful();
    s.root = "root".into();
    s
}

#[derive(Clone, Debug, PartialEq, Eq)]
struct Obs {
    module: String,
    /// partition of same-path entries after de-duplication, as sets of ORIGINAL entry ids
    dedup_partition: BTreeSet<BTreeSet<u32>>,
    dedup_module: String,
}

/// observe on a (possibly permuted) registry; `back[new] = original id`
fn observe(reg: &PortableRegistry, back: &[u32], sp: &SettingsSpec) -> Obs {
    let settings = sp.build();
    let module = match generate(reg, &settings) {
        GenOutcome::Ok { tokens } => squash(&tokens),
        GenOutcome::Err(e) => format!("Err({})", e.name()),
        GenOutcome::Panic(p) => format!("PANIC({})", truncate(&p, 60)),
    };
    let mut r2 = reg.clone();
    let ok = matches!(
        guarded(|| scale_typegen::utils::ensure_unique_type_paths(&mut r2)),
        Ok(Ok(()))
    );
    let mut groups: BTreeMap<String, BTreeSet<u32>> = BTreeMap::new();
    if ok {
        for t in &r2.types {
            if t.ty.path.segments.len() >= 2 {
                // group key: original path + new name (entries of one shape group share both)
                let orig = reg.types[t.id as usize].ty.path.segments.join("::");
                groups
                    .entry(format!("{orig}=>{}", t.ty.path.segments.join("::")))
                    .or_default()
                    .insert(back[t.id as usize]);
            }
        }
    }
    // the partition only: drop the names (suffix numbers may legitimately follow order of appearance)
    let dedup_partition: BTreeSet<BTreeSet<u32>> = groups.into_values().collect();
    let dedup_module = match generate(&r2, &settings) {
        GenOutcome::Ok { tokens } => {
            // names carry order-dependent suffixes only when something was renamed; compare modulo
            // the digits that follow a renamed identifier by comparing lengths and structure is too
            // weak, so compare exactly when nothing was renamed
            if r2 == *reg {
                squash(&tokens)
            } else {
                "renamed".into()
            }
        }
        GenOutcome::Err(e) => format!("Err({})", e.name()),
        GenOutcome::Panic(p) => format!("PANIC({})", truncate(&p, 60)),
    };
    Obs {
        module,
        dedup_partition,
        dedup_module,
    }
}

#[derive(Clone, Debug, Serialize, Deserialize)]
pub struct PermCase {
    pub prog: Program,
    /// None: all permutations when the registry has <= `full_up_to` entries, generators otherwise
    pub perm: Option<Vec<u32>>,
    /// paths that carry a recursive derive `::r::D<i>` and attribute `#[r<i>]` (several roots whose closures
    /// overlap: which root is walked first must not matter). The restriction clause is skipped for these
    /// settings (a root that is not retained takes its registrations with it).
    #[serde(default)]
    pub rec: Vec<String>,
}

fn item_tokens(module: &str) -> BTreeMap<String, String> {
    // path -> squashed tokens of the item, via the parser
    let mut out = BTreeMap::new();
    if let Ok(em) = parse_emitted(module) {
        for (p, it) in &em.items {
            out.insert(
                p.join("::"),
                format!(
                    "{:?}|{:?}|{:?}|{:?}",
                    it.generics,
                    it.derives(),
                    it.attrs,
                    it.kind_string()
                ),
            );
        }
    }
    out
}

trait KindString {
    fn kind_string(&self) -> String;
}
impl KindString for crate::interp::Item {
    fn kind_string(&self) -> String {
        use crate::interp::*;
        let f = |fs: &FieldsAst| -> String {
            let body: Vec<String> = fs
                .list()
                .iter()
                .map(|x| {
                    let ty = &x.ty;
                    format!(
                        "{:?}:{}:{}:{:?}",
                        x.name,
                        squash(&quote::quote!(#ty).to_string()),
                        x.compact,
                        x.attrs
                    )
                })
                .collect();
            match fs {
                FieldsAst::Unit => "unit".into(),
                FieldsAst::Named(_) => format!("{{{}}}", body.join(",")),
                FieldsAst::Unnamed(_) => format!("({})", body.join(",")),
            }
        };
        match &self.kind {
            ItemKind::Struct(fs) => format!("struct{}", f(fs)),
            ItemKind::Enum(vs) => format!(
                "enum[{}]",
                vs.iter()
                    .map(|v| format!("{}={:?}{}{:?}", v.name, v.index, f(&v.fields), v.docs))
                    .collect::<Vec<_>>()
                    .join(",")
            ),
        }
    }
}

pub fn check_case(c: &PermCase, full_up_to: usize, ctx: &mut Ctx) {
    let reg = elaborate(&c.prog).registry;
    let n = reg.types.len();
    let mut sp = spec();
    for (i, p) in c.rec.iter().enumerate() {
        sp.derives_for
            .push((p.clone(), vec![format!("::r::D{i}")], true));
        sp.attrs_for
            .push((p.clone(), vec![format!("#[r{i}]")], true));
    }
    let ident: Vec<u32> = (0..n as u32).collect();
    let canon = observe(&reg, &ident, &sp);
    ctx.exec(1);
    ctx.outcome(&canon.module);
    let size = c.prog.to_source().len();
    let replay = |perm: &[u32]| json!({"check": "C17", "case": {"prog": serde_json::to_value(&c.prog).unwrap(), "perm": perm, "rec": c.rec}, "source": c.prog.to_source()});
    let check_perm = |perm: &[u32], ctx: &mut Ctx| {
        ctx.exec(1);
        let preg = permute(&reg, perm);
        let mut back = vec![0u32; n];
        for (old, new) in perm.iter().enumerate() {
            back[*new as usize] = old as u32;
        }
        let o = observe(&preg, &back, &sp);
        if o.module != canon.module {
            let i = o
                .module
                .chars()
                .zip(canon.module.chars())
                .position(|(x, y)| x != y)
                .unwrap_or(0);
            let lo = i.saturating_sub(60);
            ctx.violation(
                format!(
                    "C17/permutation/module/{}",
                    if o.module.starts_with("Err") != canon.module.starts_with("Err") { "ok-vs-error" } else { "tokens" }
                ),
                format!(
                    "renumbering the registry with permutation {perm:?} changes the generated module: …{}… vs …{}…",
canon.module.chars().skip(lo).take(160).collect::<String>(),
                    o.module.chars().skip(lo).take(160).collect::<String>()
                ),
                replay(perm),
                size,
            );
        } else if o.dedup_partition != canon.dedup_partition {
            ctx.violation(
                "C17/permutation/dedup-groups",
                format!("permutation {perm:?} changes the shape groups of ensure_unique_type_paths: {:?} vs {:?}", canon.dedup_partition, o.dedup_partition),
                replay(perm),
                size,
            );
        } else if o.dedup_module != canon.dedup_module {
            ctx.violation(
                "C17/permutation/module-after-dedup",
                format!("permutation {perm:?} changes the module generated after de-duplication"),
                replay(perm),
                size,
            );
        }
    };
    if let Some(p) = &c.perm {
        check_perm(p, ctx);
    } else if n <= full_up_to {
        // Cayley graph of adjacent transpositions, breadth-first from the identity
        let mut seen: HashSet<Vec<u32>> = HashSet::new();
        let mut q: VecDeque<Vec<u32>> = VecDeque::new();
        seen.insert(ident.clone());
        q.push_back(ident.clone());
        let mut edges = 0u64;
        while let Some(p) = q.pop_front() {
            if p != ident {
                check_perm(&p, ctx);
            }
            for i in 0..n.saturating_sub(1) {
                let mut s = p.clone();
                s.swap(i, i + 1);
                edges += 1;
                if seen.insert(s.clone()) {
                    q.push_back(s);
                }
            }
        }
        ctx.note(
            "permutation states (Cayley graph vertices)",
            seen.len() as u64,
        );
        ctx.note("permutation transitions (adjacent transpositions)", edges);
    } else {
        // generators only: all transpositions, all rotations, reversal
        let mut perms: Vec<Vec<u32>> = vec![];
        for i in 0..n {
            for j in (i + 1)..n {
                let mut p = ident.clone();
                p.swap(i, j);
                perms.push(p);
            }
        }
        for r in 1..n {
            perms.push((0..n).map(|i| ((i + r) % n) as u32).collect());
        }
        perms.push(ident.iter().rev().copied().collect());
        ctx.note(
            "permutation states (generators: transpositions, rotations, reversal)",
            perms.len() as u64,
        );
        ctx.note(
            "permutation transitions (adjacent transpositions)",
            perms.len() as u64,
        );
        for p in perms {
            check_perm(&p, ctx);
        }
    }
    // restriction to the closure of every single id (and pairs for small registries)
    if c.perm.is_none() && c.rec.is_empty() {
        let canon_items = item_tokens(&canon.module);
        let mut sets: Vec<Vec<u32>> = (0..n as u32).map(|i| vec![i]).collect();
        if n <= 8 {
            for i in 0..n as u32 {
                for j in (i + 1)..n as u32 {
                    sets.push(vec![i, j]);
                }
            }
        }
        for keep in sets {
            ctx.exec(1);
            let mut sub = reg.clone();
            let map = sub.retain(|i| keep.contains(&i));
            let o = match generate(&sub, &sp.build()) {
                GenOutcome::Ok { tokens } => squash(&tokens),
                GenOutcome::Err(e) => format!("Err({})", e.name()),
                GenOutcome::Panic(p) => format!("PANIC({})", truncate(&p, 60)),
            };
            ctx.note("restriction states (retain sets)", 1);
            if canon.module.starts_with("Err") || canon.module.starts_with("PANIC") {
                continue;
            }
            if o.starts_with("Err") || o.starts_with("PANIC") {
                ctx.violation(
                    "C17/restriction/generation-fails",
                    format!("generation succeeds on the full registry but gives {o} on retain({keep:?})"),
                    json!({"check": "C17", "case": {"prog": serde_json::to_value(&c.prog).unwrap(), "perm": null}, "retain": keep, "source": c.prog.to_source()}),
                    size,
                );
                continue;
            }
            let sub_items = item_tokens(&o);
            for (p, it) in &sub_items {
                if canon_items.get(p) != Some(it) {
                    ctx.violation(
                        "C17/restriction/item-differs",
                        format!(
                            "item {p} generated from retain({keep:?}) differs from the item generated from the full registry: {} vs {}",
                            truncate(it, 200),
                            truncate(canon_items.get(p).map(|s| s.as_str()).unwrap_or("<absent>"), 200)
                        ),
                        json!({"check": "C17", "case": {"prog": serde_json::to_value(&c.prog).unwrap(), "perm": null}, "retain": keep, "source": c.prog.to_source()}),
                        size,
                    );
                }
            }
            // descriptions and example validity of retained ids
            for (old, new) in &map {
                ctx.exec(2);
                let d_full = guarded(|| {
                    scale_typegen_description::type_description(*old, &reg, false)
                        .map_err(|e| format!("{e}"))
                });
                let d_sub = guarded(|| {
                    scale_typegen_description::type_description(*new, &sub, false)
                        .map_err(|e| format!("{e}"))
                });
                if d_full != d_sub {
                    ctx.violation(
                        "C17/restriction/description-differs",
                        format!("type_description of id {old} (retained as {new}) differs: {:?} vs {:?}", d_full, d_sub),
                        json!({"check": "C17", "case": {"prog": serde_json::to_value(&c.prog).unwrap(), "perm": null}, "retain": keep, "source": c.prog.to_source()}),
                        size,
                    );
                }
                let v_full = guarded(|| {
                    scale_typegen_description::scale_value_from_seed(*old, &reg, 1).map_err(|_| ())
                });
                let v_sub = guarded(|| {
                    scale_typegen_description::scale_value_from_seed(*new, &sub, 1).map_err(|_| ())
                });
                if v_full != v_sub {
                    ctx.violation(
                        "C17/restriction/example-differs",
                        format!("scale value example (seed 1) of id {old} differs after restriction: {:?} vs {:?}", v_full.map(|r| r.map(|v| v.to_string())), v_sub.map(|r| r.map(|v| v.to_string()))),
                        json!({"check": "C17", "case": {"prog": serde_json::to_value(&c.prog).unwrap(), "perm": null}, "retain": keep, "source": c.prog.to_source()}),
                        size,
                    );
                }
            }
        }
    }
}

pub fn run(tier: &str, seed: u64) -> i32 {
    let mut report = Report::new("C17", tier, seed, "model_checking");
    let thorough = tier == "thorough";
    let full_up_to = if thorough { 7 } else { 5 };
    let mut cases: Vec<PermCase> = vec![];
    // D-arms
    let a = DArms { max_depth: 2 };
    let (all, _, _) = enumerate(&a, 1, 1_000_000);
    for (_, s) in &all {
        for pos in [Position::NamedVariant, Position::TupleStruct] {
            if !thorough && pos == Position::TupleStruct {
                continue;
            }
            cases.push(PermCase {
                prog: arms_program(&s.expr, pos, false, "N"),
                perm: None,
                rec: vec![],
            });
        }
    }
    let mut bounds: Vec<(&str, usize)> = vec![("D-arms", 0)];
    bounds.push(("D-generic(coincidence-free)", cases.len()));
    // D-generic, coincidence-free
    let d = DGeneric {
        max_fields: 2,
        max_insts: 2,
        include_cf3: false,
        body_forms: if thorough {
            ALL_BODY_FORMS.to_vec()
        } else {
            vec![BodyForm::Named, BodyForm::Unnamed]
        },
        param_forms: if thorough {
            ALL_PARAM_FORMS.to_vec()
        } else {
            vec![
                ParamForm::One,
                ParamForm::Two,
                ParamForm::ConfigSkipped,
                ParamForm::BitsSO,
            ]
        },
    };
    let (all, _, _) = enumerate(&d, if thorough { 3 } else { 2 }, 3_000_000);
    for (_, s) in &all {
        if !wf5_ok(s) {
            continue;
        }
        // quick tier: the tuple-struct form only with at most one field (the single-field tuple struct is what the
        // CompactAs rule and the marker placement treat specially)
        if !thorough && s.form == BodyForm::Unnamed && s.fields.len() > 1 {
            continue;
        }
        let prog = s.program();
        if s.insts
            .iter()
            .any(|a| coincidence(&prog.defs[G_D], a, &prog).is_err())
        {
            continue;
        }
        // at least two instantiations or unused parameters are what order could influence
        cases.push(PermCase {
            prog,
            perm: None,
            rec: vec![],
        });
    }
    // beyond that depth: definitions with three parameters (one instantiation: which argument got the smaller id
    // must not matter for the marker) and an associated type three levels down (two instantiations)
    for s in crate::families::three_inst_slice(false) {
        let keep = s.form == BodyForm::Named
            && ((s.params == ParamForm::Three
                && s.insts.len() == 1
                // (the numbering is permuted here anyway: the all-primitive instantiation; thorough: a mixed one too)
                && (matches!(&s.insts[0][0], Ty::Prim(Prim::U8)) || (thorough && matches!(&s.insts[0][0], Ty::Named(..)))))
                || matches!(s.params, ParamForm::ConfigSkipped | ParamForm::ConfigKept));
        if !keep || !wf5_ok(&s) {
            continue;
        }
        let prog = s.program();
        if s.insts.iter().any(|a| coincidence(&prog.defs[G_D], a, &prog).is_err()) {
            continue;
        }
        cases.push(PermCase { prog, perm: None, rec: vec![] });
    }
    bounds.push(("D-family", cases.len()));
    // D-family (twins carry equal docs by construction)
    let f = DFamily {
        max_members: 2,
        max_fields: 1,
        alphabet: FAM_ALPHABET.iter().cloned().chain([FamTy::Tup0, FamTy::Tup2, FamTy::Tup3]).collect(),
        forms: vec![MemberForm::NamedStruct],
        leads: vec![0, 1],
        with_neighbours: false,
    };
    let (all, _, _) = enumerate(&f, if thorough { 4 } else { 3 }, 1_000_000);
    for (_, s) in &all {
        cases.push(PermCase {
            prog: s.program(),
            perm: None,
            rec: vec![],
        });
    }
    bounds.push((
        "D-graph (plain, and with two recursive-derive roots whose closures overlap)",
        cases.len(),
    ));
    // D-graph
    let mut g = quick_graph(if thorough { 3 } else { 2 });
    // (of the cycles of length three, those over struct nodes: every numbering of each is explored here)
    g.extra_initial.retain(|s| s.nodes.iter().all(|k| *k == NodeKind::Struct));
    let (all, _, _) = enumerate(&g, g.max_edges as u32, 3_000_000);
    for (_, s) in &all {
        cases.push(PermCase {
            prog: s.program(),
            perm: None,
            rec: vec![],
        });
        // two recursive roots (every pair of nodes): their closures overlap in the shared descendants
        for i in 0..s.nodes.len() {
            for j in (i + 1)..s.nodes.len() {
                // only roots whose closures overlap: otherwise the order in which the roots are walked cannot matter
                let (ri, rj) = (s.reach(i), s.reach(j));
                if !ri.iter().zip(&rj).any(|(a, b_)| *a && *b_) {
                    continue;
                }
                cases.push(PermCase {
                    prog: s.program(),
                    perm: None,
                    rec: vec![s.path_of(i), s.path_of(j)],
                });
            }
        }
    }
    if std::env::var("VERIF_TIMING").is_ok() {
        eprintln!(
            "  cases built: {} in {:.1}s",
            cases.len(),
            report.started.elapsed().as_secs_f64()
        );
    }
    bounds.push(("", cases.len()));
    for w in bounds.windows(2) {
        let (name, lo) = w[0];
        let hi = w[1].1;
        let mut st = sweep(
            &format!("D-perm({name} registries; all n! permutations for n <= {full_up_to} (Cayley graph of adjacent transpositions), transpositions/rotations/reversal above; every single-id and (n <= 8) pair closure)"),
            &cases[lo..hi],
            Duration::from_secs(if thorough { 900 } else { 150 }),
            |c| json!({"program": c.prog.to_source()}),
            // quick tier: the cases with recursive-derive roots are permuted by the generators only (every
            // transposition - so also the one exchanging the two roots - every rotation, the reversal)
            |c, ctx| check_case(c, if !thorough && !c.rec.is_empty() { 0 } else { full_up_to }, ctx),
        );
        st.states = st
            .notes
            .iter()
            .filter(|(k, _)| k.contains("states"))
            .map(|(_, v)| *v)
            .sum::<u64>()
            .max(st.states);
        st.transitions = st
            .notes
            .iter()
            .filter(|(k, _)| k.contains("transitions"))
            .map(|(_, v)| *v)
            .sum::<u64>()
            .max(1);
        report.add(st);
    }
    // Polkadot: generators only
    let reg = crate::run::polkadot_registry();
    let n = reg.types.len();
    let sp = {
        let mut s = spec();
        s.root = "runtime_types".into();
        s
    };
    let ident: Vec<u32> = (0..n as u32).collect();
    let canon = observe(&reg, &ident, &sp);
    let mut perms: Vec<Vec<u32>> = vec![ident.iter().rev().copied().collect()];
    for r in [1usize, n / 2, n - 1] {
        perms.push((0..n).map(|i| ((i + r) % n) as u32).collect());
    }
    for i in (0..n - 1).step_by(if thorough { 7 } else { 61 }) {
        let mut p = ident.clone();
        p.swap(i, i + 1);
        perms.push(p);
    }
    report.add(sweep(
        "D-perm(polkadot: reversal, 3 rotations, a stride of adjacent transpositions)",
        &perms,
        Duration::from_secs(if thorough { 600 } else { 150 }),
        |p| json!({"polkadot_permutation_first_entries": &p[..8.min(p.len())]}),
        |p, ctx| {
            ctx.exec(1);
            let preg = permute(&reg, p);
            let mut back = vec![0u32; n];
            for (old, new) in p.iter().enumerate() {
                back[*new as usize] = old as u32;
            }
            let o = observe(&preg, &back, &sp);
            ctx.outcome(&o.module.len());
            if o.module != canon.module {
                ctx.violation(
                    "C17/permutation/module/polkadot",
                    "renumbering the Polkadot registry changes the generated module".to_string(),
                    json!({"check": "C17-polkadot", "perm_head": &p[..8.min(p.len())]}),
                    n,
                );
            } else if o.dedup_partition != canon.dedup_partition {
                ctx.violation(
                    "C17/permutation/dedup-groups/polkadot",
                    "renumbering the Polkadot registry changes the de-duplication groups"
                        .to_string(),
                    json!({"check": "C17-polkadot", "perm_head": &p[..8.min(p.len())]}),
                    n,
                );
            }
        },
    ));
    report.assumptions = vec![
        "same-path twins carry equal docs in these drivers (docs are not part of the type graph; keep-first would otherwise choose between two doc strings)".into(),
        "after de-duplication only the partition into renamed groups is compared (suffix numbers follow order of first appearance)".into(),
    ];
    report.finish()
}

pub fn replay(v: &serde_json::Value) -> Result<Vec<Violation>, String> {
    let prog: Program =
        serde_json::from_value(v["case"]["prog"].clone()).map_err(|e| e.to_string())?;
    let perm: Option<Vec<u32>> = serde_json::from_value(v["case"]["perm"].clone()).unwrap_or(None);
    let rec: Vec<String> = serde_json::from_value(v["case"]["rec"].clone()).unwrap_or_default();
    let mut ctx = Ctx::default();
    check_case(&PermCase { prog, perm, rec }, 6, &mut ctx);
    Ok(ctx.violations)
}
