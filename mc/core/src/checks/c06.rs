//! C06 - output is a deterministic function of registry and settings-as-sets.
//!
//! For every case of a corpus (registries x settings with several derives / attributes /
//! per-type and recursive registrations / substitutes): the canonical run (given registration
//! order, identity map-iteration order) is compared with (1) every permutation of each
//! registration list, (2) every map-iteration schedule with <= 2 deviating iteration points
//! (through the verif-hooks look-alike maps) plus uniform permutations, (3) fresh `mc-plain`
//! processes using the real std maps. Derive and attribute lists must be sorted, duplicate-free.

use crate::checks::c01::truncate;
use crate::drivers::*;
use crate::engine::*;
use crate::families::*;
use crate::run::*;
use crate::sched::*;
use crate::settings::*;
use crate::spm::*;
use scale_typegen::typegen::validation::validate_substitutes_and_derives_against_registry;
use serde::{Deserialize, Serialize};
use serde_json::json;
use std::collections::BTreeSet;
use std::time::Duration;

#[derive(Clone, Debug, Serialize, Deserialize)]
pub struct DetCase {
    pub reg: RegSrc,
    pub settings: SettingsSpec,
    pub note: String,
}

/// everything observable of one run, as strings
#[derive(Clone, Debug, PartialEq, Eq, Hash, Serialize, Deserialize)]
pub struct Observation {
    pub module: String,
    pub dedup_paths: Vec<String>,
    pub module_after_dedup: String,
    /// validation result as sorted sets
    pub validation: Vec<String>,
}

fn tok(t: &impl quote::ToTokens) -> String {
    squash(&t.to_token_stream().to_string())
}

pub fn observe(reg: &scale_info::PortableRegistry, spec: &SettingsSpec) -> Observation {
    let settings = spec.build();
    let module = match generate(reg, &settings) {
        GenOutcome::Ok { tokens } => squash(&tokens),
        GenOutcome::Err(e) => format!("Err({})", e.name()),
        GenOutcome::Panic(p) => format!("PANIC({})", truncate(&p, 60)),
    };
    let mut r2 = reg.clone();
    let dd = guarded(|| {
        scale_typegen::utils::ensure_unique_type_paths(&mut r2).map_err(|e| ErrKind::of(&e).name())
    });
    let dedup_paths = match dd {
        Ok(Ok(())) => r2
            .types
            .iter()
            .map(|t| t.ty.path.segments.join("::"))
            .collect(),
        Ok(Err(e)) => vec![format!("Err({e})")],
        Err(p) => vec![format!("PANIC({})", truncate(&p, 60))],
    };
    let module_after_dedup = match generate(&r2, &settings) {
        GenOutcome::Ok { tokens } => squash(&tokens),
        GenOutcome::Err(e) => format!("Err({})", e.name()),
        GenOutcome::Panic(p) => format!("PANIC({})", truncate(&p, 60)),
    };
    let derives = spec.build_derives();
    let subs = spec.build_substitutes();
    let validation =
        match guarded(|| validate_substitutes_and_derives_against_registry(&subs, &derives, reg)) {
            Err(p) => vec![format!("PANIC({})", truncate(&p, 60))],
            Ok(Ok(())) => vec!["Ok".into()],
            Ok(Err(e)) => {
                let mut v: BTreeSet<String> = BTreeSet::new();
                for (p, s) in &e.derives_for_unknown_types {
                    let s: BTreeSet<String> = s.iter().map(tok).collect();
                    v.insert(format!("derives {} {:?}", tok(p), s));
                }
                for (p, s) in &e.attributes_for_unknown_types {
                    let s: BTreeSet<String> = s.iter().map(tok).collect();
                    v.insert(format!("attrs {} {:?}", tok(p), s));
                }
                for (p, t) in &e.substitutes_for_unknown_types {
                    v.insert(format!("subst {} {}", tok(p), tok(t)));
                }
                v.into_iter().collect()
            }
        };
    Observation {
        module,
        dedup_paths,
        module_after_dedup,
        validation,
    }
}

/// derive / attribute lists sorted by token string and duplicate-free
fn sortedness(module: &str) -> Option<String> {
    let em = parse_emitted(module).ok()?;
    for (p, item) in &em.items {
        for list in &item.derive_lists {
            for w in list.windows(2) {
                if w[0] >= w[1] {
                    return Some(format!(
                        "derive list of {} is not strictly increasing: {:?}",
                        p.join("::"),
                        list
                    ));
                }
            }
        }
        if item.derive_lists.len() > 1 {
            return Some(format!(
                "{} has {} derive attributes",
                p.join("::"),
                item.derive_lists.len()
            ));
        }
        for w in item.attrs.windows(2) {
            if w[0] >= w[1] {
                return Some(format!(
                    "attribute list of {} is not strictly increasing: {:?}",
                    p.join("::"),
                    item.attrs
                ));
            }
        }
    }
    None
}

/// permutations of the registration order: each list permuted on its own (all permutations for
/// lists of <= 4 entries), plus everything reversed
fn registration_orders(spec: &SettingsSpec) -> Vec<SettingsSpec> {
    fn perms<T: Clone>(v: &[T]) -> Vec<Vec<T>> {
        if v.len() <= 1 {
            return vec![v.to_vec()];
        }
        if v.len() > 4 {
            let mut r = v.to_vec();
            r.reverse();
            let mut rot = v.to_vec();
            rot.rotate_left(1);
            return vec![v.to_vec(), r, rot];
        }
        let mut out = vec![];
        for i in 0..v.len() {
            let mut rest = v.to_vec();
            let x = rest.remove(i);
            for mut p in perms(&rest) {
                p.insert(0, x.clone());
                out.push(p);
            }
        }
        out
    }
    let mut out = vec![];
    for p in perms(&spec.derives_all).into_iter().skip(1) {
        let mut s = spec.clone();
        s.derives_all = p;
        out.push(s);
    }
    for p in perms(&spec.attrs_all).into_iter().skip(1) {
        let mut s = spec.clone();
        s.attrs_all = p;
        out.push(s);
    }
    for p in perms(&spec.derives_for).into_iter().skip(1) {
        let mut s = spec.clone();
        s.derives_for = p;
        out.push(s);
    }
    for p in perms(&spec.attrs_for).into_iter().skip(1) {
        let mut s = spec.clone();
        s.attrs_for = p;
        out.push(s);
    }
    for p in perms(&spec.substitutes).into_iter().skip(1) {
        let mut s = spec.clone();
        s.substitutes = p;
        out.push(s);
    }
    let mut s = spec.clone();
    s.derives_all.reverse();
    s.attrs_all.reverse();
    s.derives_for.reverse();
    s.attrs_for.reverse();
    s.substitutes.reverse();
    // repeated registration must not matter either
    s.derives_all.extend(spec.derives_all.iter().cloned());
    out.push(s);
    out
}

pub fn check_case(c: &DetCase, ctx: &mut Ctx, plain_bin: Option<&str>, max_scheds: usize) {
    let t0 = std::time::Instant::now();
    let reg = c.reg.registry();
    struct Timer<'a>(std::time::Instant, &'a str);
    impl<'a> Drop for Timer<'a> {
        fn drop(&mut self) {
            if std::env::var("VERIF_TIMING").is_ok() {
                eprintln!(
                    "  case `{}`: {:.1}s",
                    self.1,
                    self.0.elapsed().as_secs_f64()
                );
            }
        }
    }
    let _timer = Timer(t0, &c.note);
    let replay = |extra: serde_json::Value| json!({"check": "C06", "case": serde_json::to_value(c).unwrap(), "variant": extra});
    let size = c.reg.size() + c.settings.derives_for.len();
    let (canon, trace) = run_with(&Sched::identity(), || observe(&reg, &c.settings));
    ctx.exec(1);
    ctx.outcome(&canon);
    if let Some(p) = sortedness(&canon.module) {
        ctx.violation("C06/unsorted", p, replay(json!("canonical")), size);
    }
    let diff = |o: &Observation| -> &'static str {
        if o.module != canon.module {
            "module"
        } else if o.dedup_paths != canon.dedup_paths {
            "dedup-registry"
        } else if o.module_after_dedup != canon.module_after_dedup {
            "module-after-dedup"
        } else {
            "validation"
        }
    };
    let first_diff = |a: &str, b: &str| -> String {
        let i = a
            .chars()
            .zip(b.chars())
            .position(|(x, y)| x != y)
            .unwrap_or(a.len().min(b.len()));
        let lo = i.saturating_sub(40);
        format!(
            "…{}… vs …{}…",
a.chars().skip(lo).take(120).collect::<String>(),
            b.chars().skip(lo).take(120).collect::<String>()
        )
    };
    // (0) same process, same everything, twice
    let (again, trace2) = run_with(&Sched::identity(), || observe(&reg, &c.settings));
    ctx.exec(1);
    if again != canon || trace2 != trace {
        ctx.violation(
            format!("C06/same-process/{}", diff(&again)),
            format!(
                "two runs in one process differ: {}",
                first_diff(&again.module, &canon.module)
            ),
            replay(json!("rerun")),
            size,
        );
    }
    // (1) registration orders
    for (i, s) in registration_orders(&c.settings).iter().enumerate() {
        ctx.exec(1);
        let (o, _) = run_with(&Sched::identity(), || observe(&reg, s));
        if o != canon {
            ctx.violation(
                format!("C06/registration-order/{}", diff(&o)),
                format!("registering the same derives/attributes/substitutes in another order changes the {}: {}", diff(&o), first_diff(&o.module, &canon.module)),
                replay(json!({"registration_order_variant": i, "settings": serde_json::to_value(s).unwrap()})),
                size,
            );
        }
    }
    // (2) map iteration orders: deviation-bounded. All schedules with <= 2 deviating iteration points
    // when that is at most `max_scheds`, else all with <= 1, else (Polkadot: thousands of points)
    // single deviations at the first `max_scheds / 3` points with 3 codes each. What was completed
    // is reported.
    ctx.note("iteration points of the canonical run", trace.len() as u64);
    let mut scheds = schedules(&trace, 2, 24, 4);
    let mut level = "all schedules with <= 2 deviating iteration points";
    if scheds.len() > max_scheds {
        scheds = schedules(&trace, 1, 24, 4);
        level = "all schedules with <= 1 deviating iteration point";
    }
    if scheds.len() > max_scheds {
        let cut = (max_scheds / 3).min(trace.len());
        scheds = schedules(&trace[..cut], 1, 3, 4);
        level = "single deviations at a prefix of the iteration points only (capped)";
    }
    ctx.note(format!("cases explored at level: {level}"), 1);
    for sc in scheds.iter().skip(1) {
        ctx.exec(1);
        let (o, t) = run_with(sc, || observe(&reg, &c.settings));
        if o != canon {
            ctx.violation(
                format!("C06/map-order/{}", diff(&o)),
                format!(
                    "iterating a hash map/set in another order changes the {}: {} (schedule {:?}, replayed twice with identical result: {})",
                    diff(&o),
                    first_diff(&o.module, &canon.module),
                    sc,
                    run_with(sc, || observe(&reg, &c.settings)).0 == o
                ),
                replay(json!({"schedule": serde_json::to_value(sc).unwrap()})),
                size,
            );
        } else if t.len() != trace.len() && sc.overrides.len() <= 1 && sc.default_code == 0 {
            ctx.note(
                "schedules whose run had a different number of iteration points",
                1,
            );
        }
    }
    // (3) fresh processes with the real std maps
    if let Some(bin) = plain_bin {
        let input = serde_json::to_string(c).unwrap();
        for k in 0..3 {
            ctx.exec(1);
            let out = std::process::Command::new(bin)
                .arg("observe")
                .env("VERIF_ROOT", verif_root())
                .stdin(std::process::Stdio::piped())
                .stdout(std::process::Stdio::piped())
                .stderr(std::process::Stdio::null())
                .spawn()
                .and_then(|mut ch| {
                    use std::io::Write;
                    ch.stdin.take().unwrap().write_all(input.as_bytes())?;
                    ch.wait_with_output()
                });
            match out {
                Ok(o) if o.status.success() => {
                    match serde_json::from_slice::<Observation>(&o.stdout) {
                        Ok(o) => {
                            if o != canon {
                                ctx.violation(
                                format!("C06/fresh-process/{}", diff(&o)),
                                format!("a fresh process (std hash maps, run {k}) gives a different {}: {}", diff(&o), first_diff(&o.module, &canon.module)),
                                replay(json!("fresh-process")),
                                size,
                            );
                            }
                        }
                        Err(e) => {
                            eprintln!("machinery error: mc-plain output does not parse: {e}");
                            std::process::exit(2)
                        }
                    }
                }
                other => {
                    eprintln!("machinery error: mc-plain failed: {other:?}");
                    std::process::exit(2)
                }
            }
        }
    }
}

fn rich_settings() -> Vec<(String, SettingsSpec)> {
    let mut base = SettingsSpec::faithful();
    base.root = "root".into();
    // derives with the same last segment; attributes that differ only in their arguments
    base.derives_all = vec!["::x::Clone".into(), "::y::Clone".into(), "Debug".into()];
    base.attrs_all = vec![
        "#[serde(a)]".into(),
        "#[serde(b)]".into(),
        "#[other]".into(),
    ];
    let mut v = vec![("globals".to_string(), base.clone())];
    let mut s = base.clone();
    s.derives_for = vec![
        (
            "p::a::N".into(),
            vec!["::z::Eq".into(), "::x::Clone".into()],
            false,
        ),
        (
            "p::h::Host".into(),
            vec!["::z::Ord".into(), "::z::Hash".into()],
            true,
        ),
        ("p::a::N".into(), vec!["::z::Hash".into()], true),
        ("p::g::D".into(), vec!["::z::Eq".into()], true),
    ];
    s.attrs_for = vec![
        (
            "p::h::Host".into(),
            vec!["#[serde(c)]".into(), "#[serde(a)]".into()],
            true,
        ),
        ("p::a::N".into(), vec!["#[zz]".into()], false),
    ];
    v.push(("specific+recursive".to_string(), s.clone()));
    let mut s2 = s.clone();
    s2.substitutes.push(("p::a::N".into(), "::sub::N".into()));
    s2.substitutes.push(("p::b::W".into(), "::sub::W".into()));
    s2.substitutes
        .push(("unknown::T".into(), "::sub::T".into()));
    s2.derives_for.push((
        "unknown::U".into(),
        vec!["::z::Eq".into(), "::z::Ord".into()],
        false,
    ));
    s2.derives_for
        .push(("unknown::U".into(), vec!["::z::Hash".into()], true));
    s2.attrs_for.push((
        "unknown::V".into(),
        vec!["#[serde(c)]".into(), "#[serde(a)]".into()],
        false,
    ));
    v.push(("substitutes+unknown".to_string(), s2));
    v
}

pub fn corpus(thorough: bool) -> Vec<DetCase> {
    let mut regs: Vec<(String, RegSrc)> = vec![];
    // representatives of D-arms: one leaf per constructor family at the named-variant position
    let leaves = [
        U8,
        Ty::Named(D_N, vec![]),
        Ty::Vec(b(Ty::Named(D_N, vec![]))),
        Ty::BTreeMap(b(U8), b(Ty::Named(D_N, vec![]))),
        Ty::Named(D_G, vec![Ty::Named(D_N, vec![])]),
        Ty::Compact(b(Ty::Named(D_W, vec![]))),
        Ty::BitVec(Prim::U8, true),
        Ty::Option(b(Ty::Box(b(Ty::Named(D_N, vec![]))))),
    ];
    for (i, l) in leaves.iter().enumerate() {
        if !thorough && i % 2 == 1 {
            continue;
        }
        regs.push((
            format!("D-arms {i}"),
            RegSrc::Prog(arms_program(l, Position::NamedVariant, false, "N")),
        ));
    }
    // families: several renamed paths at once (three clashing paths with two shapes each)
    let fam = |fields_a: Vec<FamTy>, fields_b: Vec<FamTy>| FamState {
        members: vec![
            Member {
                form: MemberForm::NamedStruct,
                fields: fields_a,
            },
            Member {
                form: MemberForm::NamedStruct,
                fields: fields_b,
            },
        ],
        neighbours: 0,
        lead: 0,
    };
    regs.push((
        "D-family two shapes".into(),
        RegSrc::Prog(fam(vec![FamTy::U8], vec![FamTy::U16]).program()),
    ));
    regs.push((
        "D-family twins".into(),
        RegSrc::Prog(fam(vec![FamTy::X, FamTy::Y], vec![FamTy::X2, FamTy::Y2]).program()),
    ));
    // three clashing paths: Foo, Bar, Baz with two shapes each
    {
        let mut defs = vec![];
        let mut fields = vec![];
        for name in ["Foo", "Bar", "Baz"] {
            for (k, t) in [U8, U16].into_iter().enumerate() {
                fields.push((
                    format!("{}{}", name.to_lowercase(), k),
                    Field::new(Ty::Named(defs.len(), vec![])),
                ));
                defs.push(Def::strukt(&["m", "f"], name, &[], named(vec![("x", t)])));
            }
        }
        let host = defs.len();
        defs.push(Def::strukt(&["m", "h"], "Host", &[], Fields::Named(fields)));
        regs.push((
            "three clashing paths".into(),
            RegSrc::Prog(Program {
                defs,
                roots: vec![Ty::Named(host, vec![])],
            }),
        ));
    }
    // two clashing paths whose names are related by the suffix one of them gets: Block (two shapes) and Block1
    // (two shapes) - whichever group is renamed first, the names are Block1, Block2, Block11, Block12
    {
        let mut defs = vec![];
        let mut fields = vec![];
        for name in ["Block", "Block1"] {
            for (k, t) in [U8, U16].into_iter().enumerate() {
                fields.push((format!("{}_{}", name.to_lowercase(), k), Field::new(Ty::Named(defs.len(), vec![]))));
                defs.push(Def::strukt(&["m", "f"], name, &[], named(vec![("x", t)])));
            }
        }
        let host = defs.len();
        defs.push(Def::strukt(&["m", "h"], "Host", &[], Fields::Named(fields)));
        regs.push((
            "two clashing paths, one name the other's plus a suffix".into(),
            RegSrc::Prog(Program { defs, roots: vec![Ty::Named(host, vec![])] }),
        ));
    }
    // generics
    let g = GenState {
        form: BodyForm::Named,
        params: ParamForm::Two,
        fields: vec![
            Field::new(Ty::Param(0)),
            Field::new(Ty::Phantom(b(Ty::Param(1)))),
        ],
        insts: vec![vec![U8, U16], vec![U16, Ty::Named(G_N, vec![])]],
    };
    regs.push((
        "D-generic two params, one unused".into(),
        RegSrc::Prog(g.program()),
    ));
    let g2 = GenState {
        form: BodyForm::Enum,
        params: ParamForm::Two,
        fields: vec![
            Field::new(Ty::Phantom(b(Ty::Param(0)))),
            Field::new(Ty::Phantom(b(Ty::Param(1)))),
        ],
        insts: vec![vec![U8, U16], vec![Ty::Named(G_N, vec![]), U8]],
    };
    regs.push((
        "D-generic both params unused".into(),
        RegSrc::Prog(g2.program()),
    ));
    // two recursive roots that reach two different instantiations of ONE generic definition: the
    // recursive registrations meet in one path-keyed entry
    {
        let defs = vec![
            Def::strukt(&["p", "a"], "N", &[], named(vec![("v", U32)])),
            Def::strukt(&["p", "g"], "D", &["T"], named(vec![("t", Ty::Param(0))])),
            Def::strukt(
                &["p", "l"],
                "Left",
                &[],
                named(vec![("w", Ty::Named(1, vec![U8]))]),
            ),
            Def::strukt(
                &["p", "l"],
                "Right",
                &[],
                named(vec![
                    ("w", Ty::Named(1, vec![U32])),
                    ("n", Ty::Named(0, vec![])),
                ]),
            ),
            Def::strukt(
                &["p", "h"],
                "Host",
                &[],
                named(vec![
                    ("l", Ty::Named(2, vec![])),
                    ("r", Ty::Named(3, vec![])),
                ]),
            ),
        ];
        regs.push((
            "two recursive roots meeting in one generic".into(),
            RegSrc::Prog(Program {
                defs,
                roots: vec![Ty::Named(4, vec![])],
            }),
        ));
    }
    // a recursive registration on a generic path that has two instantiations with different children: the
    // root is the first registry entry with that path, whatever order a map yields the entries in
    {
        let defs = vec![
            Def::strukt(&["p", "a"], "Apple", &[], named(vec![("v", U32)])),
            Def::strukt(&["p", "a"], "Pear", &[], named(vec![("v", U16)])),
            Def::strukt(&["p", "g"], "W", &["T"], named(vec![("t", Ty::Param(0))])),
            Def::strukt(
                &["p", "h"],
                "Host",
                &[],
                named(vec![
                    ("a", Ty::Named(2, vec![Ty::Named(0, vec![])])),
                    ("b", Ty::Named(2, vec![Ty::Named(1, vec![])])),
                ]),
            ),
        ];
        regs.push((
            "recursive root with two instantiations".into(),
            RegSrc::Prog(Program {
                defs,
                roots: vec![Ty::Named(3, vec![])],
            }),
        ));
    }
    // one path with a recursive AND non-recursive registrations, and a child type: whichever is registered
    // first, the non-recursive ones stay on the parent
    {
        let defs = vec![
            Def::strukt(&["p", "a"], "Child", &[], named(vec![("v", U32)])),
            Def::strukt(&["p", "a"], "Parent", &[], named(vec![("c", Ty::Named(0, vec![])), ("n", U8)])),
        ];
        regs.push((
            "recursive and plain registrations on one path".into(),
            RegSrc::Prog(Program {
                defs,
                roots: vec![Ty::Named(1, vec![])],
            }),
        ));
    }
    // unknown paths for the validation result: P is in both maps (derives plainly, an attribute recursively), Q has a
    // plain derive and a plain attribute; whichever the maps yield first, the result is the same set
    regs.push(("unknown paths in both maps".into(), RegSrc::Prog(arms_program(&U8, Position::NamedStruct, false, "N"))));
    // one path registered under two spellings (`p::a::N` and `::p::a::N`) with different derives
    regs.push((
        "one path, two spellings".into(),
        RegSrc::Prog(arms_program(
            &Ty::Named(D_N, vec![]),
            Position::NamedStruct,
            false,
            "N",
        )),
    ));
    // chain metadata: the full Polkadot registry in the thorough tier; in the quick tier the first
    // single-id closure with 80..150 entries (the full registry costs ~1 s per run under the hooks)
    let full = crate::run::polkadot_registry();
    let (chain_src, chain_root_path) = if thorough {
        (
            RegSrc::Polkadot { retain: None },
            "polkadot_runtime::RuntimeCall".to_string(),
        )
    } else {
        let mut pick = None;
        for id in 0..full.types.len() as u32 {
            if full.types[id as usize].ty.path.segments.len() < 2 {
                continue;
            }
            let mut r = full.clone();
            r.retain(|i| i == id);
            if (80..=150).contains(&r.types.len()) {
                pick = Some((id, full.types[id as usize].ty.path.segments.join("::")));
                break;
            }
        }
        let (id, path) = pick.expect("a mid-size closure exists in the Polkadot registry");
        (RegSrc::Polkadot { retain: Some(id) }, path)
    };
    regs.push(("polkadot".into(), chain_src));
    let mut out = vec![];
    for (rn, r) in regs {
        for (sn, s) in rich_settings() {
            let mut s = s;
            if rn == "polkadot" {
                s.root = "runtime_types".into();
                s.derives_for = vec![
                    (
                        "sp_core::crypto::AccountId32".into(),
                        vec!["::z::Eq".into(), "::z::Ord".into()],
                        false,
                    ),
                    (
                        chain_root_path.clone(),
                        vec!["::z::Hash".into(), "::z::Eq".into()],
                        true,
                    ),
                    (
                        "pallet_balances::pallet::Call".into(),
                        vec!["::z::Ord".into()],
                        true,
                    ),
                ];
                s.attrs_for = vec![(
                    chain_root_path.clone(),
                    vec!["#[serde(c)]".into(), "#[serde(a)]".into()],
                    true,
                )];
                if sn != "specific+recursive" {
                    continue;
                }
            }
            if rn == "two recursive roots meeting in one generic" {
                s.derives_for = vec![
                    ("p::l::Left".into(), vec!["::z::FromLeft".into()], true),
                    ("p::l::Right".into(), vec!["::z::FromRight".into()], true),
                    ("p::g::D".into(), vec!["::z::Own".into()], false),
                ];
                s.attrs_for = vec![
                    ("p::l::Left".into(), vec!["#[left]".into()], true),
                    ("p::l::Right".into(), vec!["#[right]".into()], true),
                ];
            }
            if rn == "two recursive roots meeting in one generic" && sn == "globals" {
                // round 10 (C06-m19): the same two recursive roots with ATTRIBUTES ONLY - no default derives, no
                // derives anywhere - so that the entries merged per path have empty derive sets
                let mut a = SettingsSpec::faithful();
                a.root = "root".into();
                a.attrs_for = vec![
                    ("p::l::Left".into(), vec!["#[left]".into()], true),
                    ("p::l::Right".into(), vec!["#[right]".into()], true),
                ];
                out.push(DetCase {
                    reg: r.clone(),
                    settings: a.clone(),
                    note: format!("{rn} / attributes only"),
                });
                a.attrs_for.push(("p::g::D".into(), vec!["#[own]".into()], false));
                out.push(DetCase {
                    reg: r.clone(),
                    settings: a,
                    note: format!("{rn} / attributes only, one on the generic itself"),
                });
            }
            if rn == "recursive root with two instantiations" {
                s.derives_for = vec![("p::g::W".into(), vec!["::z::Rec".into()], true)];
                s.attrs_for = vec![("p::g::W".into(), vec!["#[rec]".into()], true)];
            }
            if rn == "recursive and plain registrations on one path" {
                s.derives_for = vec![
                    ("p::a::Parent".into(), vec!["::z::RecDebug".into()], true),
                    ("p::a::Parent".into(), vec!["::z::OnlyParent".into()], false),
                ];
                s.attrs_for = vec![("p::a::Parent".into(), vec!["#[only_on_parent]".into()], false), ("p::a::Parent".into(), vec!["#[rec]".into()], true)];
            }
            if rn == "unknown paths in both maps" {
                s.derives_for = vec![
                    ("gone::P".into(), vec!["::z::PD".into()], false),
                    ("gone::Q".into(), vec!["::z::QD".into()], false),
                    ("gone::R".into(), vec!["::z::RD".into()], true),
                ];
                s.attrs_for = vec![
                    ("gone::P".into(), vec!["#[p_attr]".into()], true),
                    ("gone::Q".into(), vec!["#[q_attr]".into()], false),
                    ("gone::R".into(), vec!["#[r_attr]".into()], false),
                ];
            }
            if rn == "one path, two spellings" {
                s.derives_for = vec![
                    ("p::a::N".into(), vec!["::z::Plain".into()], false),
                    ("::p::a::N".into(), vec!["::z::Colon".into()], false),
                ];
                s.attrs_for = vec![
                    ("::p::a::N".into(), vec!["#[colon]".into()], false),
                    ("p::a::N".into(), vec!["#[plain]".into()], false),
                ];
            }
            out.push(DetCase {
                reg: r.clone(),
                settings: s,
                note: format!("{rn} / {sn}"),
            });
        }
    }
    out
}

pub fn run(tier: &str, seed: u64) -> i32 {
    let mut report = Report::new("C06", tier, seed, "model_checking");
    let thorough = tier == "thorough";
    let cases = corpus(thorough);
    // the plain binary sits next to this one
    let plain = std::env::current_exe()
        .ok()
        .and_then(|p| p.parent().map(|d| d.join("mc-plain")))
        .filter(|p| p.exists());
    if plain.is_none() {
        eprintln!("machinery error: mc-plain binary not found next to mc (run ./check --setup)");
        return 2;
    }
    let plain = plain.unwrap().to_string_lossy().to_string();
    let mut st = sweep(
        "D-det(corpus of registries x rich settings; each case: all registration orders x map-iteration schedules (<= 2 deviating points + 4 uniform) x 3 fresh std-map processes)",
        &cases,
        Duration::from_secs(if thorough { 1800 } else { 150 }),
        |c| json!({"case": c.note, "settings": serde_json::to_value(&c.settings).unwrap()}),
        |c, ctx| check_case(c, ctx, Some(&plain), if thorough { 6000 } else { 500 }),
    );
    // every run against the canonical one is a transition of the exploration
    st.transitions = st.executed;
    report.add(st);
    report.extra.insert("hooks_enabled".into(), json!(HOOKS));
    report.assumptions = vec![
        "hash-map seeds are represented by iteration orders of the verif-hooks look-alike maps; the look-alike is tied to the std maps by the mc / mc-plain differential on every case".into(),
        "for runs with more than 40 iteration points (Polkadot) only single deviations with 3 codes per point plus the uniform schedules are explored".into(),
    ];
    report.finish()
}

pub fn replay(v: &serde_json::Value) -> Result<Vec<Violation>, String> {
    let c: DetCase = serde_json::from_value(v["case"].clone()).map_err(|e| e.to_string())?;
    let mut ctx = Ctx::default();
    check_case(&c, &mut ctx, None, 6000);
    Ok(ctx.violations)
}

/// entry point of `mc-plain observe`: read a case from stdin, print the observation
pub fn observe_main() {
    use std::io::Read;
    let mut s = String::new();
    std::io::stdin().read_to_string(&mut s).expect("stdin");
    let c: DetCase = serde_json::from_str(&s).expect("case parses");
    let reg = c.reg.registry();
    let o = observe(&reg, &c.settings);
    println!("{}", serde_json::to_string(&o).unwrap());
}
