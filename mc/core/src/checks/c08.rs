//! C08 - derives and attributes reach exactly the right types.

use crate::checks::c01::truncate;
use crate::engine::*;
use crate::graph::*;
use crate::interp::*;
use crate::run::*;
use crate::settings::{squash, SettingsSpec};
use crate::spm::*;
use scale_info::{PortableRegistry, TypeDef};
use serde::{Deserialize, Serialize};
use serde_json::json;
use std::collections::{BTreeMap, BTreeSet};
use std::time::Duration;

#[derive(Clone, Copy, Debug, PartialEq, Eq, Hash, Serialize, Deserialize)]
pub enum Reg {
    Nothing,
    SpecDerive,
    SpecAttr,
    RecDerive,
    RecAttr,
    SpecAndRec,
}
pub const REGS: [Reg; 6] = [
    Reg::Nothing,
    Reg::SpecDerive,
    Reg::SpecAttr,
    Reg::RecDerive,
    Reg::RecAttr,
    Reg::SpecAndRec,
];

#[derive(Clone, Debug, Serialize, Deserialize)]
pub struct DerCase {
    pub graph: GraphState,
    /// registration per node (by index)
    pub regs: Vec<Reg>,
    pub compact_as: bool,
    /// no derive for all types (attributes for all types stay): items may then carry attributes and no derive at all
    #[serde(default)]
    pub no_global_derive: bool,
    /// a recursive derive `::r::DP` and attribute `#[m(rp)]` registered on this PRELUDE path (e.g. `Option`): the
    /// root is not a generated type, the types below it are
    #[serde(default)]
    pub prelude_rec: Option<String>,
}

fn spec_of(c: &DerCase) -> SettingsSpec {
    let mut s = SettingsSpec::faithful();
    s.root = "root".into();
    s.derives_all = if c.no_global_derive {
        vec![]
    } else {
        vec!["::g::Clone".into()]
    };
    // every attribute has the same attribute PATH (`m`) and differs in its arguments only: attributes are kept
    // apart by their whole token string, as `#[codec(crate = ..)]` next to `#[codec(dumb_trait_bound)]` must be
    s.attrs_all = vec!["#[m(g)]".into()];
    if !c.compact_as {
        s.compact_as = None;
    }
    if let Some(p) = &c.prelude_rec {
        s.derives_for.push((p.clone(), vec!["::r::DP".into()], true));
        s.attrs_for.push((p.clone(), vec!["#[m(rp)]".into()], true));
    }
    for (i, r) in c.regs.iter().enumerate() {
        let p = c.graph.path_of(i);
        match r {
            Reg::Nothing => {}
            Reg::SpecDerive => s.derives_for.push((p, vec![format!("::s::D{i}")], false)),
            Reg::SpecAttr => s.attrs_for.push((p, vec![format!("#[m(s{i})]")], false)),
            Reg::RecDerive => s.derives_for.push((p, vec![format!("::r::D{i}")], true)),
            Reg::RecAttr => s.attrs_for.push((p, vec![format!("#[m(r{i})]")], true)),
            Reg::SpecAndRec => {
                s.derives_for
                    .push((p.clone(), vec![format!("::s::D{i}")], false));
                s.derives_for
                    .push((p.clone(), vec![format!("::r::D{i}")], true));
                s.attrs_for.push((p, vec![format!("#[m(r{i})]")], true));
            }
        }
    }
    s
}

/// items mentioned (by a root-relative path) in the field types of `item`
fn mentions(em: &Emitted, item: &Item) -> BTreeSet<Vec<String>> {
    fn walk(ty: &syn::Type, module: &[String], em: &Emitted, out: &mut BTreeSet<Vec<String>>) {
        match ty {
            syn::Type::Paren(p) => walk(&p.elem, module, em, out),
            syn::Type::Tuple(t) => t.elems.iter().for_each(|e| walk(e, module, em, out)),
            syn::Type::Array(a) => walk(&a.elem, module, em, out),
            syn::Type::Path(p) => {
                if let Some(syn::PathArguments::AngleBracketed(a)) =
                    p.path.segments.last().map(|s| &s.arguments)
                {
                    for g in &a.args {
                        if let syn::GenericArgument::Type(t) = g {
                            walk(t, module, em, out);
                        }
                    }
                }
                if p.path.leading_colon.is_none() {
                    let segs: Vec<String> = p
                        .path
                        .segments
                        .iter()
                        .map(|s| s.ident.to_string())
                        .collect();
                    if let Ok(target) = em.resolve_item(module, &segs) {
                        out.insert(target.path.clone());
                    }
                }
            }
            _ => {}
        }
    }
    let mut out = BTreeSet::new();
    let module = &item.path[..item.path.len() - 1];
    let fields: Vec<&FieldAst> = match &item.kind {
        ItemKind::Struct(f) => f.list().iter().collect(),
        ItemKind::Enum(vs) => vs.iter().flat_map(|v| v.fields.list().iter()).collect(),
    };
    for f in fields {
        walk(&f.ty, module, em, &mut out);
    }
    out
}

/// registry reachability (fields, variants, elements, compact, type parameters) from every entry with path `p`
fn reg_reach(reg: &PortableRegistry, p: &str) -> BTreeSet<String> {
    let mut seen = BTreeSet::new();
    let mut stack: Vec<u32> = reg
        .types
        .iter()
        .filter(|t| t.ty.path.segments.join("::") == p)
        .map(|t| t.id)
        .collect();
    let mut out = BTreeSet::new();
    while let Some(i) = stack.pop() {
        if !seen.insert(i) {
            continue;
        }
        let Some(t) = reg.resolve(i) else { continue };
        if t.path.segments.len() >= 2 {
            out.insert(t.path.segments.join("::"));
        }
        for tp in &t.type_params {
            if let Some(x) = tp.ty {
                stack.push(x.id);
            }
        }
        match &t.type_def {
            TypeDef::Composite(c) => stack.extend(c.fields.iter().map(|f| f.ty.id)),
            TypeDef::Variant(v) => stack.extend(
                v.variants
                    .iter()
                    .flat_map(|v| v.fields.iter().map(|f| f.ty.id)),
            ),
            TypeDef::Sequence(s) => stack.push(s.type_param.id),
            TypeDef::Array(a) => stack.push(a.type_param.id),
            TypeDef::Tuple(t) => stack.extend(t.fields.iter().map(|f| f.id)),
            TypeDef::Compact(c) => stack.push(c.type_param.id),
            TypeDef::BitSequence(b) => {
                stack.push(b.bit_store_type.id);
                stack.push(b.bit_order_type.id);
            }
            TypeDef::Primitive(_) => {}
        }
    }
    out
}

fn single_uint_field(item: &Item) -> bool {
    let ItemKind::Struct(f) = &item.kind else {
        return false;
    };
    let real: Vec<&FieldAst> = f.list().iter().filter(|x| !ty_is_phantom(&x.ty)).collect();
    if real.len() != 1 {
        return false;
    }
    let t = {
        let ty = &real[0].ty;
        squash(&quote::quote!(#ty).to_string())
    };
    ["u8", "u16", "u32", "u64", "u128"]
        .iter()
        .any(|u| t == format!("::core::primitive::{u}"))
}

fn ty_is_phantom(ty: &syn::Type) -> bool {
    squash(&quote::quote!(#ty).to_string()).starts_with("::core::marker::PhantomData")
}

pub fn check_case(c: &DerCase, ctx: &mut Ctx) {
    let prog = c.graph.program();
    let spec = spec_of(c);
    let size = c.graph.edges.len() * 10 + c.regs.iter().filter(|r| **r != Reg::Nothing).count();
    let replay = json!({"check": "C08", "case": serde_json::to_value(c).unwrap(), "source": prog.to_source(), "settings": serde_json::to_value(&spec).unwrap()});
    check_program(&prog, &spec, false, replay, size, ctx);
}

/// The oracle on any source program and settings (registrations use the `::r::` / `::s::` / `#[m(r..)]` naming of
/// `spec_of`, which is what the violation classes are read from).
pub fn check_program(prog: &crate::spm::Program, spec: &SettingsSpec, dedup: bool, replay: serde_json::Value, size: usize, ctx: &mut Ctx) {
    let mut reg = elaborate(prog).registry;
    if dedup && scale_typegen::utils::ensure_unique_type_paths(&mut reg).is_err() {
        ctx.exclude("de-duplication fails (C04)");
        return;
    }
    let spec = spec.clone();
    let settings = spec.build();
    ctx.exec(1);
    let replay = || replay.clone();
    let tokens = match generate(&reg, &settings) {
        GenOutcome::Ok { tokens } => tokens,
        other => {
            ctx.note(
                format!(
                    "generation does not succeed: {} (C10)",
                    truncate(&format!("{other:?}"), 50)
                ),
                1,
            );
            return;
        }
    };
    let Ok(em) = parse_emitted(&tokens) else {
        ctx.note("module does not parse (C02)", 1);
        return;
    };
    ctx.outcome(&squash(&tokens));
    let root = spec.root.clone();
    let full = |p: &str| -> Vec<String> {
        let mut v = vec![root.clone()];
        v.extend(p.split("::").map(|s| s.to_string()));
        v
    };
    let rel = |p: &[String]| p[1..].join("::");
    // recursive registrations: (path, derives, attrs)
    let mut rec: Vec<(String, BTreeSet<String>, BTreeSet<String>)> = vec![];
    let mut specific: BTreeMap<String, (BTreeSet<String>, BTreeSet<String>)> = BTreeMap::new();
    for (p, d, r) in &spec.derives_for {
        let d: BTreeSet<String> = d.iter().map(|x| squash(x)).collect();
        if *r {
            rec.push((p.clone(), d, BTreeSet::new()));
        } else {
            specific.entry(p.clone()).or_default().0.extend(d);
        }
    }
    for (p, a, r) in &spec.attrs_for {
        let a: BTreeSet<String> = a.iter().map(|x| squash(x)).collect();
        if *r {
            rec.push((p.clone(), BTreeSet::new(), a));
        } else {
            specific.entry(p.clone()).or_default().1.extend(a);
        }
    }
    // lower bound: closure over the mention relation of emitted items
    let mut lower: BTreeMap<Vec<String>, (BTreeSet<String>, BTreeSet<String>)> = BTreeMap::new();
    for (p, d, a) in &rec {
        let start = full(p);
        if !em.items.contains_key(&start) {
            continue;
        }
        let mut seen: BTreeSet<Vec<String>> = BTreeSet::new();
        let mut stack = vec![start];
        while let Some(x) = stack.pop() {
            if !seen.insert(x.clone()) {
                continue;
            }
            if let Some(it) = em.items.get(&x) {
                stack.extend(mentions(&em, it));
            }
        }
        for x in seen {
            let e = lower.entry(x).or_default();
            e.0.extend(d.iter().cloned());
            e.1.extend(a.iter().cloned());
        }
    }
    // a recursive root that is a prelude type (not generated itself): the implementation roots it at the first
    // registry entry with that path; everything generated that is reachable from THAT entry must carry it
    for (p, d, a) in &rec {
        if p.contains("::") {
            continue;
        }
        let Some(first) = reg.types.iter().find(|t| t.ty.path.segments.join("::") == *p) else { continue };
        let mut one = reg.clone();
        let keep = first.id;
        one.retain(|i| i == keep);
        for t in &one.types {
            if t.ty.path.segments.len() >= 2 {
                let e = lower.entry(full(&t.ty.path.segments.join("::"))).or_default();
                e.0.extend(d.iter().cloned());
                e.1.extend(a.iter().cloned());
            }
        }
    }
    // upper bound: registry reachability from entries with the registered path
    let mut upper: BTreeMap<String, (BTreeSet<String>, BTreeSet<String>)> = BTreeMap::new();
    for (p, d, a) in &rec {
        for x in reg_reach(&reg, p) {
            let e = upper.entry(x).or_default();
            e.0.extend(d.iter().cloned());
            e.1.extend(a.iter().cloned());
        }
    }
    let global_d: BTreeSet<String> = spec.derives_all.iter().map(|x| squash(x)).collect();
    let global_a: BTreeSet<String> = spec.attrs_all.iter().map(|x| squash(x)).collect();
    let compact_as = spec.compact_as.as_ref().map(|x| squash(x));
    for (path, item) in &em.items {
        let r = rel(path);
        let got_d: BTreeSet<String> = item.derives().into_iter().collect();
        let got_a: BTreeSet<String> = item.attrs.iter().cloned().collect();
        let mut must_d = global_d.clone();
        let mut must_a = global_a.clone();
        if let Some((d, a)) = specific.get(&r) {
            must_d.extend(d.iter().cloned());
            must_a.extend(a.iter().cloned());
        }
        if let Some((d, a)) = lower.get(path) {
            must_d.extend(d.iter().cloned());
            must_a.extend(a.iter().cloned());
        }
        // (a field written `#[codec(compact)] a: u32` or `a: Compact<u32>` is a compact type in the registry, not an
        // unsigned integer, whatever the emitted field looks like with codec attributes off)
        let compact_in_registry = reg.types.iter().any(|t| {
            t.ty.path.segments.join("::") == r
                && match &t.ty.type_def {
                    TypeDef::Composite(c) => c.fields.iter().any(|f| {
                        matches!(reg.resolve(f.ty.id).map(|x| &x.type_def), Some(TypeDef::Compact(_)))
                    }),
                    _ => false,
                }
        });
        let want_compact_as = compact_as.is_some() && single_uint_field(item) && !compact_in_registry;
        if let (true, Some(ca)) = (want_compact_as, &compact_as) {
            must_d.insert(ca.clone());
        }
        let mut may_d = must_d.clone();
        let mut may_a = must_a.clone();
        if let Some((d, a)) = upper.get(&r) {
            may_d.extend(d.iter().cloned());
            may_a.extend(a.iter().cloned());
        }
        let missing_d: Vec<&String> = must_d.difference(&got_d).collect();
        let extra_d: Vec<&String> = got_d.difference(&may_d).collect();
        let missing_a: Vec<&String> = must_a.difference(&got_a).collect();
        let extra_a: Vec<&String> = got_a.difference(&may_a).collect();
        let class = |x: &str| -> &'static str {
            if x.contains("CompactAs") {
                "compact-as"
            } else if x.starts_with("::r::") || x.starts_with("#[m(r") {
                "recursive"
            } else if x.starts_with("::s::") || x.starts_with("#[m(s") {
                "specific"
            } else {
                "global"
            }
        };
        if let Some(x) = missing_d.first() {
            ctx.violation(
                format!("C08/missing-derive/{}", class(x)),
                format!("{r} carries derives {got_d:?} but must carry {x} (global + own path + recursive closure + CompactAs rule = {must_d:?})"),
                replay(),
                size,
            );
        }
        if let Some(x) = extra_d.first() {
            ctx.violation(
                format!("C08/extra-derive/{}", class(x)),
                format!(
                    "{r} carries derive {x}, which no registration reaches (allowed: {may_d:?})"
                ),
                replay(),
                size,
            );
        }
        if let Some(x) = missing_a.first() {
            ctx.violation(
                format!("C08/missing-attribute/{}", class(x)),
                format!("{r} carries attributes {got_a:?} but must carry {x} ({must_a:?})"),
                replay(),
                size,
            );
        }
        if let Some(x) = extra_a.first() {
            ctx.violation(
                format!("C08/extra-attribute/{}", class(x)),
                format!(
                    "{r} carries attribute {x}, which no registration reaches (allowed: {may_a:?})"
                ),
                replay(),
                size,
            );
        }
    }
}

/// registrations with at most `k` nodes registered
fn assignments(n: usize, k: usize) -> Vec<Vec<Reg>> {
    let mut out = vec![vec![Reg::Nothing; n]];
    for i in 0..n {
        for r in &REGS[1..] {
            let mut a = vec![Reg::Nothing; n];
            a[i] = *r;
            out.push(a.clone());
            if k >= 2 {
                for j in (i + 1)..n {
                    for r2 in &REGS[1..] {
                        let mut b_ = a.clone();
                        b_[j] = *r2;
                        out.push(b_);
                    }
                }
            }
        }
    }
    out
}

pub fn run(tier: &str, seed: u64) -> i32 {
    let mut report = Report::new("C08", tier, seed, "model_checking");
    let thorough = tier == "thorough";
    let g = quick_graph(if thorough { 3 } else { 2 });
    let budget = Budget {
        max_depth: g.max_edges as u32,
        wall: Duration::from_secs(if thorough { 1500 } else { 150 }),
        max_states: 5_000_000,
    };
    report.add(explore(&g, &budget, seed, |s, ctx| {
        for regs in assignments(s.nodes.len(), 2) {
            check_case(
                &DerCase {
                    graph: s.clone(),
                    regs,
                    compact_as: true,
                    no_global_derive: false,
                    prelude_rec: None,
                },
                ctx,
            );
        }
        // a recursive registration on the prelude path `Option` (graphs with an Option<Box<..>> edge)
        if s.edges.iter().any(|(_, _, l)| *l == Label::OptBox) {
            check_case(
                &DerCase {
                    graph: s.clone(),
                    regs: vec![Reg::Nothing; s.nodes.len()],
                    compact_as: true,
                    no_global_derive: false,
                    prelude_rec: Some("Option".into()),
                },
                ctx,
            );
        }
        // without a derive for all types: an item's derive list may be empty while its attribute list is not
        for regs in assignments(s.nodes.len(), 1) {
            check_case(
                &DerCase {
                    graph: s.clone(),
                    regs,
                    compact_as: true,
                    no_global_derive: true,
                    prelude_rec: None,
                },
                ctx,
            );
        }
        check_case(
            &DerCase {
                graph: s.clone(),
                regs: vec![Reg::Nothing; s.nodes.len()],
                compact_as: false,
                no_global_derive: false,
                prelude_rec: None,
            },
            ctx,
        );
    }));
    // D-generic: generic definitions (a parameter kept only in a PhantomData marker next to a single unsigned
    // field; two instantiations under one path), codec attributes on and off, a recursive registration on the host,
    // on the definition itself, or - the two instantiations split over two hosts - on the host of the SECOND one
    {
        let dg = crate::families::DGeneric {
            max_fields: 2,
            max_insts: 2,
            include_cf3: false,
            body_forms: vec![crate::families::BodyForm::Named, crate::families::BodyForm::Enum],
            param_forms: vec![crate::families::ParamForm::One, crate::families::ParamForm::TwoSecondSkipped],
        };
        let (gall, _, _) = enumerate(&dg, if thorough { 4 } else { 3 }, 2_000_000);
        let mut cases: Vec<(crate::spm::Program, SettingsSpec, String)> = vec![];
        for (_, gs) in &gall {
            if !crate::checks::c05::wf5_ok(gs) || gs.insts.is_empty() {
                continue;
            }
            // two fields: one of them is what the CompactAs rule looks at (an unsigned integer, a compact one, a
            // marker for an otherwise unused parameter); one field: every type of the alphabet
            let special = |f: &crate::spm::Field| {
                matches!(f.ty, crate::spm::Ty::Phantom(_) | crate::spm::Ty::Prim(_) | crate::spm::Ty::Compact(_)) || f.compact
            };
            if gs.fields.len() == 2 && !(special(&gs.fields[0]) && (special(&gs.fields[1]) || matches!(gs.fields[1].ty, crate::spm::Ty::Param(_)))) {
                continue;
            }
            let prog = gs.program();
            if gs.insts.iter().any(|a| crate::families::coincidence(&prog.defs[crate::families::G_D], a, &prog).is_err()) {
                continue;
            }
            let host = prog.defs.len() - 1;
            let mut variants: Vec<(crate::spm::Program, &str)> = vec![(prog.clone(), "p::h::Host"), (prog.clone(), "p::g::D")];
            if gs.insts.len() == 2 {
                let mut split = prog.clone();
                let second = match &mut split.defs[host].body {
                    crate::spm::Body::Struct(crate::spm::Fields::Named(fs)) => fs.pop(),
                    _ => None,
                };
                if let Some((_, f)) = second {
                    split.defs.push(crate::spm::Def::strukt(&["p", "h"], "Host2", &[], crate::spm::Fields::Named(vec![("i1".into(), f)])));
                    split.roots.push(crate::spm::Ty::Named(host + 1, vec![]));
                    variants.push((split, "p::h::Host2"));
                }
            }
            for (p, on) in variants {
                for codec in [true, false] {
                    let mut spec = SettingsSpec::faithful();
                    spec.root = "root".into();
                    spec.derives_all = vec!["::g::Clone".into()];
                    spec.attrs_all = vec!["#[m(g)]".into()];
                    spec.codec_attrs = codec;
                    spec.derives_for.push((on.to_string(), vec!["::r::D0".into()], true));
                    spec.attrs_for.push((on.to_string(), vec!["#[m(r0)]".into()], true));
                    cases.push((p.clone(), spec, format!("recursive registration on {on}, codec attributes {}", if codec { "on" } else { "off" })));
                }
            }
        }
        report.add(sweep(
            "D-generic(fields<=2, instantiations<=2, coincidence-free) x {recursive registration on the host, on the definition, on the second of two hosts} x codec attributes on/off",
            &cases,
            Duration::from_secs(if thorough { 600 } else { 60 }),
            |c| json!({"case": c.2, "source": c.0.to_source()}),
            |c, ctx| {
                let replay = json!({"check": "C08", "program_case": {"program": serde_json::to_value(&c.0).unwrap(), "settings": serde_json::to_value(&c.1).unwrap(), "dedup": true}, "source": c.0.to_source(), "note": c.2});
                check_program(&c.0, &c.1, true, replay, 1, ctx)
            },
        ));
    }
    report.assumptions = vec![
        "the recursive part is checked as two bounds, as the statement's closure clause pins it: lower = closure over generated items mentioned in field types, upper = registry reachability (fields, variants, elements, compact, type parameters) from any entry with the registered path".into(),
        "bit-order markers are substituted".into(),
    ];
    report.finish()
}

pub fn replay(v: &serde_json::Value) -> Result<Vec<Violation>, String> {
    if let Some(g) = v.get("program_case") {
        let prog: crate::spm::Program = serde_json::from_value(g["program"].clone()).map_err(|e| e.to_string())?;
        let spec: SettingsSpec = serde_json::from_value(g["settings"].clone()).map_err(|e| e.to_string())?;
        let mut ctx = Ctx::default();
        check_program(&prog, &spec, g["dedup"].as_bool().unwrap_or(false), v.clone(), 1, &mut ctx);
        return Ok(ctx.violations);
    }
    let c: DerCase = serde_json::from_value(v["case"].clone()).map_err(|e| e.to_string())?;
    let mut ctx = Ctx::default();
    check_case(&c, &mut ctx);
    Ok(ctx.violations)
}
