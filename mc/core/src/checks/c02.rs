//! C02 - the generated module is closed, well-formed Rust.
//!
//! Oracle (DESIGN.md 5, C02): (1) parses as a module tree; (2) every path rooted at the types
//! module resolves through the `use super::<root>` chain to an emitted item; (3) applied to as many
//! generic arguments as declared; (4) every declared generic parameter is used by a field or a
//! PhantomData marker; (5) unique item / module names per module; (6) every cycle between generated
//! types passes through heap indirection; (7) struct forms (checked by the parser).

use crate::checks::c01::{root_collides, truncate};
use crate::drivers::*;
use crate::engine::*;
use crate::interp::*;
use crate::run::*;
use crate::settings::{squash, SettingsSpec};
use serde_json::json;
use std::collections::{BTreeSet, HashMap, HashSet};
use std::time::Duration;

/// All violations of the C02 oracle in one emitted module: (signature suffix, detail).
pub fn module_problems(em: &Emitted, settings: &SettingsSpec) -> Vec<(String, String)> {
    let mut out = vec![];
    let table = extern_table(settings);
    // (5) uniqueness
    for (path, m) in &em.modules {
        let mut seen = BTreeSet::new();
        for n in m.item_names.iter().chain(m.child_modules.iter()) {
            if !seen.insert(n.clone()) {
                out.push((
                    "duplicate-name".to_string(),
                    format!("`{n}` is defined twice in module {}", path.join("::")),
                ));
            }
        }
        if m.other_items > 0 {
            out.push((
                "unexpected-item".to_string(),
                format!(
                    "module {} contains {} items that are neither use/mod/struct/enum",
                    path.join("::"),
                    m.other_items
                ),
            ));
        }
    }
    for (path, item) in &em.items {
        let module = &path[..path.len() - 1];
        if !item.is_pub {
            out.push((
                "not-pub".into(),
                format!("item {} is not `pub`", path.join("::")),
            ));
        }
        let mut used: HashSet<String> = HashSet::new();
        let mut all_fields: Vec<&FieldAst> = vec![];
        match &item.kind {
            ItemKind::Struct(f) => all_fields.extend(f.list()),
            ItemKind::Enum(vs) => {
                let mut names = BTreeSet::new();
                for v in vs {
                    if !names.insert(v.name.clone()) {
                        out.push((
                            "duplicate-variant".into(),
                            format!("variant {} twice in {}", v.name, path.join("::")),
                        ));
                    }
                    all_fields.extend(v.fields.list());
                }
            }
        }
        // field names unique
        if let ItemKind::Struct(FieldsAst::Named(fs)) = &item.kind {
            let mut names = BTreeSet::new();
            for f in fs {
                if !names.insert(f.name.clone()) {
                    out.push((
                        "duplicate-field".into(),
                        format!("field {:?} twice in {}", f.name, path.join("::")),
                    ));
                }
            }
        }
        for f in all_fields {
            walk_type(&f.ty, module, item, em, &table, &mut used, &mut out);
        }
        // (4)
        for g in &item.generics {
            if !used.contains(g) {
                out.push((
                    "unused-generic".into(),
                    format!("generic parameter `{g}` of {} is used by no field and no PhantomData marker", path.join("::")),
                ));
            }
        }
    }
    // (8) a derive of a std trait puts a bound on every field type; a generated type below such a field (also as a
    // generic argument of a generated type: derives bound every parameter, used or not) has to derive the trait
    // too, or rustc rejects the module with E0277 (the compile farm decides the same thing with rustc itself)
    for (path, item) in &em.items {
        let module = &path[..path.len() - 1];
        let mine: BTreeSet<String> = item.derives().iter().filter_map(|d| bounding_trait(d)).collect();
        if mine.is_empty() {
            continue;
        }
        let mut mentioned: Vec<Vec<String>> = vec![];
        let fields: Vec<&FieldAst> = match &item.kind {
            ItemKind::Struct(f) => f.list().iter().collect(),
            ItemKind::Enum(vs) => vs.iter().flat_map(|v| v.fields.list()).collect(),
        };
        for f in fields {
            bounded_mentions(&f.ty, module, item, em, &mut mentioned);
        }
        mentioned.sort();
        mentioned.dedup();
        for m in mentioned {
            let Some(target) = em.items.get(&m) else { continue };
            let theirs: BTreeSet<String> = target.derives().iter().filter_map(|d| bounding_trait(d)).collect();
            for t in mine.difference(&theirs) {
                out.push((
                    "derive-bound".into(),
                    format!(
                        "{} derives {t} and mentions {} in a field, which does not derive {t} (E0277)",
                        path.join("::"),
                        m.join("::")
                    ),
                ));
            }
        }
    }
    // (6) cycles must pass through heap indirection
    if let Some(c) = inline_cycle(em, &table) {
        out.push((
            "infinite-size".into(),
            format!("cycle without heap indirection: {c}"),
        ));
    }
    out
}

/// the std traits whose derive bounds every field type and every type parameter
fn bounding_trait(derive: &str) -> Option<String> {
    let last = derive.rsplit("::").next().unwrap_or(derive).trim().to_string();
    matches!(last.as_str(), "Clone" | "Debug" | "PartialEq" | "Eq" | "PartialOrd" | "Ord" | "Hash").then_some(last)
}

/// generated items on which a derived impl of the item puts a bound: everything below the field type except what
/// sits under PhantomData, a Cow or an external type this harness does not know
fn bounded_mentions(ty: &syn::Type, module: &[String], item: &Item, em: &Emitted, out: &mut Vec<Vec<String>>) {
    match ty {
        syn::Type::Paren(p) => bounded_mentions(&p.elem, module, item, em, out),
        syn::Type::Tuple(t) => t.elems.iter().for_each(|e| bounded_mentions(e, module, item, em, out)),
        syn::Type::Array(a) => bounded_mentions(&a.elem, module, item, em, out),
        syn::Type::Path(p) => {
            let segs: Vec<String> = p.path.segments.iter().map(|s| s.ident.to_string()).collect();
            let args: Vec<&syn::Type> = match p.path.segments.last().map(|s| &s.arguments) {
                Some(syn::PathArguments::AngleBracketed(a)) => a
                    .args
                    .iter()
                    .filter_map(|g| match g {
                        syn::GenericArgument::Type(t) => Some(t),
                        _ => None,
                    })
                    .collect(),
                _ => vec![],
            };
            let external = p.path.leading_colon.is_some() || segs.first().map(|s| s == "crate").unwrap_or(false);
            if external {
                let last = segs.last().map(|s| s.as_str()).unwrap_or("");
                if matches!(last, "Vec" | "Option" | "Box" | "BTreeMap" | "BTreeSet" | "VecDeque" | "BinaryHeap" | "Result") {
                    for a in args {
                        bounded_mentions(a, module, item, em, out);
                    }
                }
                return;
            }
            if segs.len() == 1 && item.generics.contains(&segs[0]) {
                return;
            }
            if let Ok(target) = em.resolve_item(module, &segs) {
                out.push(target.path.clone());
                for a in args {
                    bounded_mentions(a, module, item, em, out);
                }
            }
        }
        _ => {}
    }
}

fn walk_type(
    ty: &syn::Type,
    module: &[String],
    item: &Item,
    em: &Emitted,
    table: &HashMap<String, Extern>,
    used: &mut HashSet<String>,
    out: &mut Vec<(String, String)>,
) {
    match ty {
        syn::Type::Paren(p) => walk_type(&p.elem, module, item, em, table, used, out),
        syn::Type::Tuple(t) => t
            .elems
            .iter()
            .for_each(|e| walk_type(e, module, item, em, table, used, out)),
        syn::Type::Array(a) => walk_type(&a.elem, module, item, em, table, used, out),
        syn::Type::Path(p) => {
            let segs: Vec<String> = p
                .path
                .segments
                .iter()
                .map(|s| s.ident.to_string())
                .collect();
            let args: Vec<&syn::Type> = match p.path.segments.last().map(|s| &s.arguments) {
                Some(syn::PathArguments::AngleBracketed(a)) => a
                    .args
                    .iter()
                    .filter_map(|g| match g {
                        syn::GenericArgument::Type(t) => Some(t),
                        _ => None,
                    })
                    .collect(),
                _ => vec![],
            };
            for a in &args {
                walk_type(a, module, item, em, table, used, out);
            }
            if p.path.leading_colon.is_some() || segs.first().map(|s| s == "crate").unwrap_or(false)
            {
                // external: not rooted at the types module. One thing rustc rejects whatever the path means:
                // a global path (`::x`) cannot start with `crate`, `self` or `super` (E0433)
                if p.path.leading_colon.is_some()
                    && segs
                        .first()
                        .map(|s| matches!(s.as_str(), "crate" | "self" | "super" | "Self"))
                        .unwrap_or(false)
                {
                    out.push((
                        "global-path-starts-with-keyword".into(),
                        format!("in {}: `::{}` is not a valid path (global paths cannot start with `{}`)", item.path.join("::"), segs.join("::"), segs[0]),
                    ));
                }
                return;
            }
            if segs.len() == 1 && item.generics.contains(&segs[0]) && args.is_empty() {
                used.insert(segs[0].clone());
                return;
            }
            match em.resolve_item(module, &segs) {
                Err(e) => out.push((
                    "unresolved-path".into(),
                    format!(
                        "in {}: path `{}` does not resolve: {e}",
                        item.path.join("::"),
                        segs.join("::")
                    ),
                )),
                Ok(target) => {
                    if target.generics.len() != args.len() {
                        out.push((
                            "arity".into(),
                            format!(
                                "in {}: `{}` declares {} generic parameters but is applied to {}",
                                item.path.join("::"),
                                target.path.join("::"),
                                target.generics.len(),
                                args.len()
                            ),
                        ));
                    }
                }
            }
        }
        other => out.push((
            "type-syntax".into(),
            format!(
                "unexpected type syntax `{}`",
                squash(&quote::quote!(#other).to_string())
            ),
        )),
    }
}

/// Is there a cycle among closed types that never passes through Box/Vec/map/set/heap?
/// Nodes are closed type expressions (generic items expanded with their arguments).
fn inline_cycle(em: &Emitted, table: &HashMap<String, Extern>) -> Option<String> {
    // colour: 1 = on stack, 2 = done
    let mut colour: HashMap<String, u8> = HashMap::new();
    fn key(ty: &syn::Type) -> String {
        squash(&quote::quote!(#ty).to_string())
    }
    fn visit(
        ty: &syn::Type,
        module: &[String],
        em: &Emitted,
        table: &HashMap<String, Extern>,
        colour: &mut HashMap<String, u8>,
        depth: usize,
    ) -> Option<String> {
        if depth > 80 {
            return Some(format!("expansion of `{}` does not terminate", key(ty)));
        }
        match ty {
            syn::Type::Paren(p) => visit(&p.elem, module, em, table, colour, depth + 1),
            syn::Type::Tuple(t) => t
                .elems
                .iter()
                .find_map(|e| visit(e, module, em, table, colour, depth + 1)),
            syn::Type::Array(a) => visit(&a.elem, module, em, table, colour, depth + 1),
            syn::Type::Path(p) => {
                let args: Vec<syn::Type> = match p.path.segments.last().map(|s| &s.arguments) {
                    Some(syn::PathArguments::AngleBracketed(a)) => a
                        .args
                        .iter()
                        .filter_map(|g| match g {
                            syn::GenericArgument::Type(t) => Some(t.clone()),
                            _ => None,
                        })
                        .collect(),
                    _ => vec![],
                };
                if p.path.leading_colon.is_some() {
                    return match table.get(&path_key(&p.path)) {
                        // heap indirection: contents are not stored inline
                        Some(Extern::Vec)
                        | Some(Extern::Box)
                        | Some(Extern::BTreeMap)
                        | Some(Extern::SeqWrapper)
                        | Some(Extern::Cow)
                        | Some(Extern::U8Keyed) => None,
                        // PhantomData<T> stores nothing
                        Some(Extern::Phantom) => None,
                        // everything else stores its arguments inline (Option, Result, Range, Compact, substitutes)
                        _ => args
                            .iter()
                            .find_map(|a| visit(a, module, em, table, colour, depth + 1)),
                    };
                }
                let segs: Vec<String> = p
                    .path
                    .segments
                    .iter()
                    .map(|s| s.ident.to_string())
                    .collect();
                let Ok(item) = em.resolve_item(module, &segs) else {
                    return None; // reported elsewhere
                };
                if item.generics.len() != args.len() {
                    return None; // reported elsewhere
                }
                let k = format!(
                    "{}<{}>",
                    item.path.join("::"),
                    args.iter().map(key).collect::<Vec<_>>().join(",")
                );
                match colour.get(&k) {
                    Some(1) => return Some(k),
                    Some(_) => return None,
                    None => {}
                }
                colour.insert(k.clone(), 1);
                let env: Vec<(String, syn::Type)> = item
                    .generics
                    .iter()
                    .cloned()
                    .zip(args.iter().cloned())
                    .collect();
                let item_mod = item.path[..item.path.len() - 1].to_vec();
                let fields: Vec<&FieldAst> = match &item.kind {
                    ItemKind::Struct(f) => f.list().iter().collect(),
                    ItemKind::Enum(vs) => vs.iter().flat_map(|v| v.fields.list().iter()).collect(),
                };
                for f in fields {
                    let closed = substitute_generics(&f.ty, &env);
                    if let Some(c) = visit(&closed, &item_mod, em, table, colour, depth + 1) {
                        return Some(format!("{k} -> {c}"));
                    }
                }
                colour.insert(k, 2);
                None
            }
            _ => None,
        }
    }
    for (path, item) in &em.items {
        // instantiate generics with a unit type: inline cycles do not depend on the arguments
        let unit: syn::Type = syn::parse_quote!(());
        let args: Vec<syn::Type> = item.generics.iter().map(|_| unit.clone()).collect();
        let p = path.join("::");
        let src = if args.is_empty() {
            p.clone()
        } else {
            format!(
                "{p}<{}>",
                args.iter().map(|_| "()").collect::<Vec<_>>().join(",")
            )
        };
        let ty: syn::Type = syn::parse_str(&src).ok()?;
        if let Some(c) = visit(&ty, &[], em, table, &mut colour, 0) {
            return Some(c);
        }
    }
    None
}

pub fn check_case(case: &Case, ctx: &mut Ctx) {
    let registry = match case.registry() {
        Ok(r) => r,
        Err(e) => {
            ctx.note(
                format!(
                    "de-duplication failed: {} (reported by C04/C10)",
                    truncate(&e, 60)
                ),
                1,
            );
            return;
        }
    };
    if root_collides(&registry, &case.settings.root) {
        ctx.exclude(
            "root module name occurs as a path segment of the registry (the property's proviso)",
        );
        return;
    }
    let settings = case.settings.build();
    ctx.exec(1);
    let tokens = match generate(&registry, &settings) {
        GenOutcome::Ok { tokens } => tokens,
        GenOutcome::Err(ErrKind::DuplicateTypePath(_)) => {
            ctx.exclude("generation fails with DuplicateTypePath (C03/C04's subject)");
            return;
        }
        GenOutcome::Err(e) => {
            ctx.note(
                format!("generation error {} (reported by C10)", e.name()),
                1,
            );
            return;
        }
        GenOutcome::Panic(m) => {
            ctx.note(
                format!("generation panic `{}` (reported by C10)", truncate(&m, 60)),
                1,
            );
            return;
        }
    };
    let emitted = match parse_emitted(&tokens) {
        Ok(e) => e,
        Err(e) => {
            ctx.violation(
                "C02/unparsable-module",
                format!("emitted module does not parse: {e}"),
                case.replay("C02"),
                case.reg.size(),
            );
            return;
        }
    };
    if emitted.root != case.settings.root {
        ctx.violation(
            "C02/root-name",
            format!(
                "root module is `{}`, settings say `{}`",
                emitted.root, case.settings.root
            ),
            case.replay("C02"),
            case.reg.size(),
        );
    }
    let problems = module_problems(&emitted, &case.settings);
    ctx.outcome(&(squash(&tokens), problems.len()));
    for (sig, detail) in problems {
        ctx.violation(
            format!("C02/{sig}"),
            detail,
            case.replay("C02"),
            case.reg.size(),
        );
    }
    // every user type of the registry with a namespace (and no substitute) has an item in the module its namespace names
    for t in &registry.types {
        let segs = &t.ty.path.segments;
        if segs.len() < 2 {
            continue;
        }
        if !matches!(
            t.ty.type_def,
            scale_info::TypeDef::Composite(_) | scale_info::TypeDef::Variant(_)
        ) {
            continue;
        }
        let p = segs.join("::");
        if case
            .settings
            .substitutes
            .iter()
            .any(|(from, _)| squash(from).split('<').next() == Some(p.as_str()))
        {
            continue;
        }
        let mut full = vec![case.settings.root.clone()];
        full.extend(segs.iter().cloned());
        if !emitted.items.contains_key(&full) {
            ctx.violation(
                "C02/missing-item",
                format!("registry type {p} has no item at {}", full.join("::")),
                case.replay("C02"),
                case.reg.size(),
            );
        }
    }
}

pub fn run(tier: &str, seed: u64) -> i32 {
    let mut report = Report::new("C02", tier, seed, "model_checking");
    let thorough = tier == "thorough";
    // the whole D-settings neighbourhood plus the default profile (codec attributes off)
    let mut settings = faithful_neighbourhood();
    let mut dflt = SettingsSpec::default();
    dflt.compact_path = Some("::c::Compact".into());
    dflt.bits_path = Some("::b::DecodedBits".into());
    settings.push(("default+paths".into(), dflt));
    let d = DArms { max_depth: 2 };
    let budget = Budget {
        max_depth: 2,
        wall: Duration::from_secs(if thorough { 600 } else { 150 }),
        max_states: 5_000_000,
    };
    let st = explore(&d, &budget, seed, |s, ctx| {
        for (prog, pos) in arms_programs(&s.expr) {
            for (sname, spec) in &settings {
                if !thorough && s.depth >= 2 && sname != "faithful" {
                    continue;
                }
                let case = Case::new(
                    RegSrc::Prog(prog.clone()),
                    spec.clone(),
                    format!("D-arms {pos} settings {sname}"),
                );
                check_case(&case, ctx);
            }
        }
    });
    report.add(st);
    for st in crate::checks::families::generic_and_family_stats(
        "C02",
        thorough,
        seed,
        false,
        &|c, ctx| check_case(c, ctx),
    ) {
        report.add(st);
    }
    // D-graph: cyclic type graphs (every cycle must keep its heap indirection)
    let g = crate::graph::quick_graph(if thorough { 3 } else { 2 });
    let budget = Budget {
        max_depth: g.max_edges as u32,
        wall: Duration::from_secs(if thorough { 900 } else { 150 }),
        max_states: 5_000_000,
    };
    report.add(explore(&g, &budget, seed, |s, ctx| {
        let mut spec = SettingsSpec::faithful();
        spec.root = "root".into();
        check_case(&Case::new(RegSrc::Prog(s.program()), spec.clone(), "D-graph"), ctx);
        // two recursive derives of std traits, on the first and on the second node: every item below either root
        // must end up with what the derived impls of the items above it require (rule 8)
        if s.nodes.len() >= 2 {
            let mut spec = spec;
            spec.derives_for.push((s.path_of(0), vec!["Clone".into()], true));
            spec.derives_for.push((s.path_of(1), vec!["PartialEq".into()], true));
            check_case(&Case::new(RegSrc::Prog(s.program()), spec, "D-graph, recursive Clone on node 0 and recursive PartialEq on node 1"), ctx);
        }
    }));
    // D-chain
    let mut chain: Vec<Case> = vec![];
    for (sname, spec) in &settings {
        let mut spec = spec.clone();
        if spec.root == "types" {
            spec.root = "runtime_types".into();
        }
        let mut c = Case::new(
            RegSrc::Polkadot { retain: None },
            spec,
            format!("D-chain full, settings {sname}"),
        );
        c.dedup = true;
        chain.push(c);
    }
    let n = crate::run::polkadot_registry().types.len() as u32;
    for id in 0..n {
        let mut spec = SettingsSpec::faithful();
        spec.root = "runtime_types".into();
        let mut c = Case::new(
            RegSrc::Polkadot { retain: Some(id) },
            spec,
            format!("D-chain retain({id})"),
        );
        c.dedup = true;
        chain.push(c);
    }
    for (pname, prog) in special_programs() {
        for (sname, spec) in &settings {
            chain.push(Case::new(RegSrc::Prog(prog.clone()), spec.clone(), format!("{pname}, settings {sname}")));
        }
    }
    let st = sweep(
        "D-chain(polkadot full x settings + 918 single-id closures) + D-real / D-deep / degenerate registries x settings",
        &chain,
        Duration::from_secs(if thorough { 900 } else { 150 }),
        |c| json!({"case": c.note, "reg": c.reg.describe()}),
        |c, ctx| check_case(c, ctx),
    );
    report.add(st);
    // substitute rules of every form on every use site (C07's driver; a substituted type is not emitted, so a
    // rule that is silently abandoned leaves a dangling path), and generic definitions generated WITHOUT a
    // compact / bits path (generation fails there or the module is closed: a failing generic argument must not
    // simply be dropped)
    {
        let (all, _, _) = enumerate(&crate::checks::c07::DSubst, 3, 1_000_000);
        let mut cases: Vec<Case> = all
            .iter()
            .filter(|(_, s)| s.use_.is_some() && s.rule.is_some())
            // supported settings only: a rule whose target mentions a source parameter for which the type has no
            // (non-skipped) argument leaves that name in the output - the rule does not fit the type
            .filter(|(_, s)| {
                use crate::checks::c07::SForm;
                let arity = match s.sform {
                    SForm::Plain => 0,
                    SForm::One | SForm::TwoSecondSkipped => 1,
                    SForm::Two | SForm::BTreeMap => 2,
                };
                let (g, t) = crate::checks::c07::rule_forms()[s.rule.unwrap()];
                let names: Vec<&str> = g.trim_matches(|c| c == '<' || c == '>').split(',').map(|x| x.trim()).filter(|x| !x.is_empty()).collect();
                let toks: Vec<&str> = t.split(|c: char| !(c.is_alphanumeric() || c == '_')).collect();
                // (the relative fixed argument `m::B` of C07's last rule form names nothing the module or the farm's
                // stub crates define: C07's concern, not closedness)
                !s.second && !t.contains(" m::") && names.iter().enumerate().all(|(i, n)| i < arity || !toks.contains(n))
            })
            .map(|(_, s)| Case::new(RegSrc::Prog(s.program()), s.spec(), "D-subst"))
            .collect();
        let dg = crate::families::DGeneric {
            max_fields: 1,
            max_insts: 2,
            include_cf3: false,
            body_forms: crate::families::ALL_BODY_FORMS.to_vec(),
            param_forms: vec![crate::families::ParamForm::One, crate::families::ParamForm::BitsSO],
        };
        let (gall, _, _) = enumerate(&dg, 2, 1_000_000);
        for (_, gs) in &gall {
            if !crate::checks::c05::wf5_ok(gs) {
                continue;
            }
            for which in 0..2 {
                let mut spec = SettingsSpec::faithful();
                if which == 0 {
                    spec.compact_path = None;
                } else {
                    spec.bits_path = None;
                }
                let mut c = Case::new(RegSrc::Prog(gs.program()), spec, if which == 0 { "D-generic, no compact path" } else { "D-generic, no bits path" });
                c.dedup = true;
                cases.push(c);
            }
        }
        // recursive derives: a derive asked for on the host has to reach every generated type its impl bounds, also
        // one that is only a generic ARGUMENT (the parameter kept in a PhantomData marker, which the registry's
        // field list leaves out)
        let dg = crate::families::DGeneric {
            max_fields: 1,
            max_insts: 2,
            include_cf3: false,
            body_forms: crate::families::ALL_BODY_FORMS.to_vec(),
            param_forms: crate::families::ALL_PARAM_FORMS.to_vec(),
        };
        let (gall, _, _) = enumerate(&dg, 2, 1_000_000);
        for (_, gs) in &gall {
            if !crate::checks::c05::wf5_ok(gs) {
                continue;
            }
            let mut spec = SettingsSpec::faithful();
            spec.derives_for.push(("p::h::Host".into(), vec!["Clone".into()], true));
            let mut c = Case::new(RegSrc::Prog(gs.program()), spec, "D-generic, recursive derive on the host");
            c.dedup = true;
            cases.push(c);
        }
        report.add(sweep(
            "D-subst(substitute rules of every form x every use site) + D-generic(depth <= 2) without a compact / bits path, and with a recursive derive on the host",
            &cases,
            Duration::from_secs(if thorough { 300 } else { 120 }),
            |c| json!({"case": c.note, "reg": c.reg.describe()}),
            |c, ctx| check_case(c, ctx),
        ));
    }
    {
        match compile_tier(seed, !thorough) {
            Ok(st) => report.add(st),
            Err(e) => {
                eprintln!("machinery error: compile farm: {e}");
                return 2;
            }
        }
    }
    report.assumptions = vec![
        "the clause `compiles under rustc` is decided by the compile farm (rustc itself, every distinct module of the listed drivers); the other clauses by the interpreter".into(),
        "registries are produced by the SPM elaborator (conformance-checked against real scale-info)".into(),
    ];
    report.finish()
}

pub fn replay(case: &Case) -> Vec<Violation> {
    let mut ctx = Ctx::default();
    check_case(case, &mut ctx);
    ctx.violations
}

/// Thorough tier: every distinct module the drivers produce under the compile profile is
/// type-checked by rustc with the real parity-scale-codec derives.
pub fn compile_tier(_seed: u64, quick: bool) -> Result<Stats, String> {
    use crate::families::*;
    use crate::farm::*;
    use std::collections::HashSet;
    let profile = compile_profile();
    let mut progs: Vec<(String, Case)> = vec![];
    let a = DArms { max_depth: 2 };
    let (all, _, _) = enumerate(&a, if quick { 1 } else { 2 }, 1_000_000);
    for (_, s) in &all {
        for (prog, pos) in arms_programs(&s.expr) {
            progs.push((
                format!("D-arms {pos}"),
                Case::new(RegSrc::Prog(prog), profile.clone(), "compile"),
            ));
        }
    }
    let mut g = crate::graph::quick_graph(2);
    if quick {
        // (the cycles of length three go through rustc in the thorough tier; rule 6 decides them in both)
        g.extra_initial.clear();
    }
    let (all, _, _) = enumerate(&g, 2, 1_000_000);
    for (_, s) in &all {
        progs.push((
            "D-graph".into(),
            Case::new(RegSrc::Prog(s.program()), profile.clone(), "compile"),
        ));
    }
    let d = DGeneric {
        max_fields: 2,
        max_insts: 2,
        include_cf3: true,
        body_forms: ALL_BODY_FORMS.to_vec(),
        param_forms: ALL_PARAM_FORMS.to_vec(),
    };
    let (all, _, _) = enumerate(&d, 1, 1_000_000);
    for (_, s) in &all {
        if crate::checks::c05::wf5_ok(s) {
            let mut c = Case::new(RegSrc::Prog(s.program()), profile.clone(), "compile");
            c.dedup = true;
            progs.push(("D-generic".into(), c));
        }
    }
    let f = DFamily {
        max_members: 2,
        max_fields: 1,
        alphabet: FAM_ALPHABET.to_vec(),
        forms: ALL_MEMBER_FORMS.to_vec(),
        leads: vec![0],
        with_neighbours: false,
    };
    let (all, _, _) = enumerate(&f, if quick { 3 } else { 4 }, 1_000_000);
    for (_, s) in &all {
        let mut c = Case::new(RegSrc::Prog(s.program()), profile.clone(), "compile");
        c.dedup = true;
        progs.push(("D-family".into(), c));
    }
    if !quick {
        let mut pk = profile.clone();
        pk.root = "runtime_types".into();
        let mut c = Case::new(RegSrc::Polkadot { retain: None }, pk, "compile");
        c.dedup = true;
        progs.push(("polkadot".into(), c));
    }
    // generate, de-duplicate by token string
    let generated: Vec<Option<FarmCase>> = {
        use rayon::prelude::*;
        progs
            .par_iter()
            .map(|(label, case)| {
                let reg = case.registry().ok()?;
                match generate(&reg, &case.settings.build()) {
                    GenOutcome::Ok { tokens } => Some(FarmCase {
                        label: label.clone(),
                        replay: case.replay("C02"),
                        tokens,
                    }),
                    _ => None,
                }
            })
            .collect()
    };
    let mut seen = HashSet::new();
    let mut cases = vec![];
    let mut not_generated = 0u64;
    let mut with_char = 0u64;
    for g in generated {
        match g {
            Some(c) => {
                // parity-scale-codec has no codec for `char`: such modules cannot compile with the
                // codec derives whatever the generator does (outside the supported compile profile)
                if c.tokens.contains("primitive :: char") {
                    with_char += 1;
                    continue;
                }
                if seen.insert(crate::engine::hash128(&c.tokens)) {
                    cases.push(c);
                }
            }
            None => not_generated += 1,
        }
    }
    let res = compile(&cases, 16)?;
    let mut st = Stats {
        driver: format!(
            "compile farm: rustc type-check (cargo check, parity-scale-codec 3.6.12 derives) of every distinct module of D-arms(depth<={}, all positions), D-graph(edges<=2), D-generic(depth<=1), D-family(depth<={}, de-duplicated){} under the compile profile, {} crates",
            if quick { 1 } else { 2 },
            if quick { 3 } else { 4 },
            if quick { "" } else { ", Polkadot" },
            res.crates
        ),
        states: cases.len() as u64,
        transitions: progs.len() as u64,
        max_depth: 1,
        bound_completed: 1,
        exhaustive: true,
        executed: cases.len() as u64,
        distinct_outcomes: 1 + res.errors.len().min(1) as u64,
        wall_s: res.wall_s,
        ..Default::default()
    };
    st.notes.insert(
        "programs generated under the compile profile".into(),
        progs.len() as u64,
    );
    st.notes.insert(
        "programs for which generation does not succeed (not compiled)".into(),
        not_generated,
    );
    st.notes
        .insert("distinct modules compiled".into(), cases.len() as u64);
    st.excluded.insert("module mentions `char`, for which parity-scale-codec has no codec (outside the compile profile)".into(), with_char);
    st.samples = cases
        .iter()
        .take(2)
        .map(|c| json!({"label": c.label, "module": truncate(&c.tokens, 400)}))
        .collect();
    let mut by_code: std::collections::BTreeMap<String, (u64, Violation)> = Default::default();
    for e in &res.errors {
        let c = &cases[e.case];
        let v = Violation {
            sig: format!("C02/rustc/{}", e.code),
            detail: format!(
                "rustc rejects the module generated for a {} case: {} - module: {}",
                c.label,
                e.message,
                truncate(&c.tokens, 400)
            ),
            replay: c.replay.clone(),
            size: c.tokens.len(),
        };
        match by_code.get_mut(&v.sig) {
            Some((n, cur)) => {
                *n += 1;
                if v.size < cur.size {
                    *cur = v
                }
            }
            None => {
                by_code.insert(v.sig.clone(), (1, v));
            }
        }
    }
    st.violations = by_code
        .into_values()
        .map(|(n, mut v)| {
            v.detail = format!("{} ({n} modules fail this way; smallest shown)", v.detail);
            v
        })
        .collect();
    Ok(st)
}
