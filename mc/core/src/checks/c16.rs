//! C16 - settings builders behave as set/map accumulators over any call history.
//!
//! Driver D-hist: breadth-first search over histories of public builder calls. The BFS state is
//! the abstract settings (maps of sets); histories with equal abstract state are merged, which is
//! sound because every transition first establishes that the real objects' complete observable
//! content equals the abstract state. Every transition (not only new states) is checked.

use crate::drivers::*;
use crate::engine::*;
use crate::run::*;
use crate::sched::*;
use crate::settings::*;
use crate::spm::*;
use rayon::prelude::*;
use scale_typegen::typegen::error::TypeSubstitutionErrorKind;
use scale_typegen::typegen::settings::substitutes::absolute_path;
use scale_typegen::{DerivesRegistry, TypeSubstitutes};
use serde::{Deserialize, Serialize};
use serde_json::json;
use std::collections::{BTreeMap, BTreeSet, HashMap};
use std::time::{Duration, Instant};

#[derive(Clone, Debug, PartialEq, Eq, Hash, Serialize, Deserialize)]
pub enum Call {
    AllDerives(Vec<String>),
    AllAttrs(Vec<String>),
    ForDerives(String, Vec<String>, bool),
    ForAttrs(String, Vec<String>, bool),
    Insert(String, String),
    InsertIfAbsent(String, String),
    Extend(Vec<(String, String)>),
    /// `TypeGeneratorSettings::substitute(from, to)` - the settings builder's way to add a rule (valid pairs only:
    /// it unwraps)
    BuilderSubstitute(String, String),
    /// `TypeGeneratorSettings::add_derives_for_all`
    BuilderDerivesAll(Vec<String>),
}

const P: &str = "p::a::P";
const C: &str = "p::a::C";
const Q: &str = "p::b::Q";
/// reachable from P only through the marker-only generic argument of `Mk<K>`
const K: &str = "p::a::K";
/// a field of K: below P by three steps, the middle one a generic argument
const LF: &str = "p::a::Lf";
const D1: &str = "::d::One";
const D2: &str = "::d::Two";
/// a different path with the same final identifier as D1
const D3: &str = "::e::One";
const A1: &str = "#[a1]";
const A2: &str = "#[a2(x)]";

/// substitute (source, target) pairs: valid ones and one per documented error kind
fn sub_args() -> Vec<(String, String)> {
    let mut v = vec![];
    // (`::p::a::P` is a second spelling of P: the leading colons are not part of the key)
    for s in [P, "p::a::P<A>", Q, "::p::a::P"] {
        for t in ["::t::X", "::t::Y<A>", "crate::Z"] {
            v.push((s.to_string(), t.to_string()));
        }
    }
    // invalid
    v.push((P.into(), "t::X".into())); // relative target
    v.push(("p::a::P(A)".into(), "::t::X".into())); // parenthesised generics on the source
    v.push((P.into(), "::t::X(A)".into())); // ... on the target
    v.push(("p::a::P<a::B>".into(), "::t::X".into())); // non-identifier source generic
    v.push((P.into(), "::t::X<[A; 2]>".into())); // non-path target generic
    v.push(("p::a::P<A>".into(), "::t::X<A, [A; 2]>".into())); // ... in the SECOND position (the first is fine)
    v.push(("".into(), "::t::X".into())); // empty source path
    v
}

pub fn alphabet() -> Vec<Call> {
    let mut v = vec![
        Call::AllDerives(vec![D1.into()]),
        Call::AllDerives(vec![D1.into(), D2.into()]),
        Call::AllDerives(vec![D1.into(), D1.into()]),
        Call::AllAttrs(vec![A1.into()]),
        Call::AllAttrs(vec![A1.into(), A2.into()]),
    ];
    for p in [P, Q] {
        for rec in [false, true] {
            v.push(Call::ForDerives(p.into(), vec![D1.into()], rec));
            v.push(Call::ForDerives(p.into(), vec![D2.into()], rec));
            v.push(Call::ForAttrs(p.into(), vec![A1.into()], rec));
        }
    }
    v.push(Call::ForDerives(P.into(), vec![D3.into()], false));
    v.push(Call::AllDerives(vec![D3.into()]));
    // the child of P: a type with two ancestors that can both carry recursive registrations
    v.push(Call::ForDerives(C.into(), vec![D2.into()], true));
    v.push(Call::ForAttrs(C.into(), vec![A2.into()], true));
    v.push(Call::ForDerives(C.into(), vec![D1.into()], false));
    for (s, t) in sub_args() {
        v.push(Call::Insert(s.clone(), t.clone()));
        v.push(Call::InsertIfAbsent(s.clone(), t.clone()));
    }
    let a = sub_args();
    // index of the first invalid pair (the valid ones come first)
    let inv = a.iter().position(|(s, t)| pair_error(s, t).is_some()).expect("invalid pairs exist");
    // extend: single pairs, and two pairs where the rejected one comes first / second
    v.push(Call::Extend(vec![a[0].clone(), a[7].clone()]));
    v.push(Call::Extend(vec![a[1].clone(), a[inv].clone()]));
    v.push(Call::Extend(vec![a[inv].clone(), a[1].clone()]));
    v.push(Call::Extend(vec![
        a[2].clone(),
        a[inv + 1].clone(),
        a[4].clone(),
    ]));
    v.push(Call::Extend(vec![]));
    // the same accumulators reached through the TypeGeneratorSettings builder
    v.push(Call::BuilderSubstitute(P.into(), "::t::X".into()));
    v.push(Call::BuilderSubstitute(
        "p::a::P<A>".into(),
        "::t::Y<A>".into(),
    ));
    v.push(Call::BuilderSubstitute(Q.into(), "crate::Z".into()));
    v.push(Call::BuilderDerivesAll(vec![D2.into()]));
    v
}

/// the abstract settings
#[derive(Clone, Debug, Default, PartialEq, Eq, Hash, Serialize, Deserialize)]
pub struct Model {
    pub all_d: BTreeSet<String>,
    pub all_a: BTreeSet<String>,
    pub spec_d: BTreeMap<String, BTreeSet<String>>,
    pub spec_a: BTreeMap<String, BTreeSet<String>>,
    pub rec_d: BTreeMap<String, BTreeSet<String>>,
    pub rec_a: BTreeMap<String, BTreeSet<String>>,
    /// source path without generics -> target as written
    pub subs: BTreeMap<String, String>,
    /// source path without generics -> source as written in the call that set the rule in force (its generics
    /// decide how the target's parameters are filled)
    #[serde(default)]
    pub subs_src: BTreeMap<String, String>,
}

#[derive(Clone, Debug, PartialEq, Eq)]
pub enum Expected {
    Ok,
    Err(&'static str),
}

fn source_key(s: &str) -> String {
    squash(s.split(['<', '(']).next().unwrap_or("")).trim_start_matches("::").to_string()
}

/// documented error kind of one substitute pair, or None if valid
fn pair_error(s: &str, t: &str) -> Option<&'static str> {
    if s.is_empty() {
        return Some("EmptySubstitutePath");
    }
    if !(t.starts_with("::") || t.starts_with("crate::")) {
        return Some("ExpectedAbsolutePath");
    }
    if s.contains('(') || t.contains("X(") {
        return Some("ExpectedAngleBracketGenerics");
    }
    if s.contains("<a::B>") {
        return Some("InvalidFromType");
    }
    if t.contains("[A;") {
        return Some("InvalidToType");
    }
    None
}

impl Model {
    pub fn apply(&mut self, c: &Call) -> Expected {
        let ins = |m: &mut BTreeMap<String, BTreeSet<String>>, p: &str, xs: &[String]| {
            m.entry(squash(p))
                .or_default()
                .extend(xs.iter().map(|x| squash(x)));
        };
        match c {
            Call::AllDerives(d) | Call::BuilderDerivesAll(d) => {
                self.all_d.extend(d.iter().map(|x| squash(x)))
            }
            Call::AllAttrs(a) => self.all_a.extend(a.iter().map(|x| squash(x))),
            Call::ForDerives(p, d, rec) => ins(
                if *rec {
                    &mut self.rec_d
                } else {
                    &mut self.spec_d
                },
                p,
                d,
            ),
            Call::ForAttrs(p, a, rec) => ins(
                if *rec {
                    &mut self.rec_a
                } else {
                    &mut self.spec_a
                },
                p,
                a,
            ),
            Call::Insert(s, t) | Call::BuilderSubstitute(s, t) => {
                if let Some(e) = pair_error(s, t) {
                    return Expected::Err(e);
                }
                self.subs.insert(source_key(s), squash(t));
                self.subs_src.insert(source_key(s), s.clone());
            }
            Call::InsertIfAbsent(s, t) => {
                if let Some(e) = pair_error(s, t) {
                    return Expected::Err(e);
                }
                if !self.subs.contains_key(&source_key(s)) {
                    self.subs.insert(source_key(s), squash(t));
                    self.subs_src.insert(source_key(s), s.clone());
                }
            }
            Call::Extend(pairs) => {
                for (s, t) in pairs {
                    if let Some(e) = pair_error(s, t) {
                        return Expected::Err(e);
                    }
                    self.subs.insert(source_key(s), squash(t));
                    self.subs_src.insert(source_key(s), s.clone());
                }
            }
        }
        Expected::Ok
    }
}

pub struct Real {
    pub derives: DerivesRegistry,
    pub subs: TypeSubstitutes,
}

fn kind_name(k: &TypeSubstitutionErrorKind) -> &'static str {
    match k {
        TypeSubstitutionErrorKind::ExpectedAbsolutePath => "ExpectedAbsolutePath",
        TypeSubstitutionErrorKind::EmptySubstitutePath => "EmptySubstitutePath",
        TypeSubstitutionErrorKind::ExpectedAngleBracketGenerics => "ExpectedAngleBracketGenerics",
        TypeSubstitutionErrorKind::InvalidFromType => "InvalidFromType",
        TypeSubstitutionErrorKind::InvalidToType => "InvalidToType",
        TypeSubstitutionErrorKind::NoMatchingFromType => "NoMatchingFromType",
        _ => "other",
    }
}

fn src_path(s: &str) -> syn::Path {
    if s.is_empty() {
        syn::Path {
            leading_colon: None,
            segments: syn::punctuated::Punctuated::new(),
        }
    } else {
        parse_path(s)
    }
}

impl Real {
    pub fn new() -> Real {
        Real {
            derives: DerivesRegistry::new(),
            subs: TypeSubstitutes::new(),
        }
    }
    /// apply one call; Ok(()) or the error kind name
    pub fn apply(&mut self, c: &Call) -> Result<(), String> {
        match c {
            Call::AllDerives(d) => self
                .derives
                .add_derives_for_all(d.iter().map(|s| parse_path(s))),
            Call::AllAttrs(a) => self
                .derives
                .add_attributes_for_all(a.iter().map(|s| parse_attr(s))),
            Call::ForDerives(p, d, rec) => self.derives.add_derives_for(
                parse_type_path(p),
                d.iter().map(|s| parse_path(s)),
                *rec,
            ),
            Call::ForAttrs(p, a, rec) => self.derives.add_attributes_for(
                parse_type_path(p),
                a.iter().map(|s| parse_attr(s)),
                *rec,
            ),
            Call::Insert(s, t) => {
                let t = absolute_path(parse_path(t)).map_err(|e| kind_name(&e.kind).to_string())?;
                self.subs
                    .insert(src_path(s), t)
                    .map_err(|e| kind_name(&e.kind).to_string())?
            }
            Call::BuilderSubstitute(s, t) => {
                let mut st = scale_typegen::TypeGeneratorSettings::default();
                st.substitutes = std::mem::replace(&mut self.subs, TypeSubstitutes::new());
                st = st.substitute(src_path(s), parse_path(t));
                self.subs = st.substitutes;
            }
            Call::BuilderDerivesAll(d) => {
                let mut st = scale_typegen::TypeGeneratorSettings::default();
                st.derives = std::mem::replace(&mut self.derives, DerivesRegistry::new());
                st = st.add_derives_for_all(d.iter().map(|s| parse_path(s)));
                self.derives = st.derives;
            }
            Call::InsertIfAbsent(s, t) => {
                let t = absolute_path(parse_path(t)).map_err(|e| kind_name(&e.kind).to_string())?;
                self.subs
                    .insert_if_not_exists(src_path(s), t)
                    .map_err(|e| kind_name(&e.kind).to_string())?
            }
            Call::Extend(pairs) => {
                // the caller converts targets first (the API takes AbsolutePath): a relative target
                // stops the caller before `extend` is reached, pairs before it included
                let mut conv = vec![];
                let mut early: Option<String> = None;
                for (s, t) in pairs {
                    match absolute_path(parse_path(t)) {
                        Ok(t) => conv.push((src_path(s), t)),
                        Err(e) => {
                            early = Some(kind_name(&e.kind).to_string());
                            break;
                        }
                    }
                }
                let r = self
                    .subs
                    .extend(conv)
                    .map_err(|e| kind_name(&e.kind).to_string());
                r?;
                if let Some(e) = early {
                    return Err(e);
                }
            }
        }
        Ok(())
    }
}

fn tok(t: &impl quote::ToTokens) -> String {
    squash(&t.to_token_stream().to_string())
}

/// complete observable content of the real objects, in the model's vocabulary
fn observe(real: &Real) -> Model {
    let mut m = Model::default();
    m.all_d = real
        .derives
        .default_derives()
        .derives()
        .iter()
        .map(tok)
        .collect();
    m.all_a = real
        .derives
        .default_derives()
        .attributes()
        .iter()
        .map(tok)
        .collect();
    // derives_on_specific_types chains specific then recursive; split them by probing with a clone:
    // the public API does not tell them apart, so observe the union here and the split through generation
    for (p, d) in real.derives.derives_on_specific_types() {
        let e = m.spec_d.entry(tok(p)).or_default();
        e.extend(d.derives().iter().map(tok));
        let e = m.spec_a.entry(tok(p)).or_default();
        e.extend(d.attributes().iter().map(tok));
    }
    for (k, v) in real.subs.iter() {
        m.subs.insert(k.join("::"), tok(v.path()));
    }
    m
}

fn probe_registry() -> scale_info::PortableRegistry {
    // P { c: C, m: Mk<K> }, C { v: u8 }, Q(u16), Mk<T> { v: u8, PhantomData<T> }, K { k: u8 }: K is reachable from
    // P only through a generic argument that no field of Mk mentions
    let defs = vec![
        Def::strukt(
            &["p", "a"],
            "P",
            &[],
            named(vec![("c", Ty::Named(1, vec![])), ("m", Ty::Named(3, vec![Ty::Named(4, vec![])]))]),
        ),
        Def::strukt(&["p", "a"], "C", &[], named(vec![("v", U8)])),
        Def::strukt(&["p", "b"], "Q", &[], unnamed(vec![U16])),
        Def::strukt(&["p", "a"], "Mk", &["T"], named(vec![("v", U8), ("p", Ty::Phantom(b(Ty::Param(0))))])),
        Def::strukt(&["p", "a"], "K", &[], named(vec![("k", U8), ("leaf", Ty::Named(5, vec![]))])),
        Def::strukt(&["p", "a"], "Lf", &[], named(vec![("v", U16)])),
    ];
    elaborate(&Program {
        defs,
        roots: vec![Ty::Named(0, vec![]), Ty::Named(2, vec![])],
    })
    .registry
}

/// probe for applied substitutes: `P<T> { t: T }`, `Q(u16)`, `Host { p: P<u32>, q: Q, v: Vec<P<u8>> }`
fn subst_probe_registry() -> scale_info::PortableRegistry {
    let defs = vec![
        Def::strukt(&["p", "a"], "P", &["T"], named(vec![("t", Ty::Param(0))])),
        Def::strukt(&["p", "b"], "Q", &[], unnamed(vec![U16])),
        Def::strukt(
            &["p", "h"],
            "Host",
            &[],
            named(vec![
                ("p", Ty::Named(0, vec![Ty::Prim(Prim::U32)])),
                ("q", Ty::Named(1, vec![])),
                ("v", Ty::Vec(b(Ty::Named(0, vec![U8])))),
            ]),
        ),
    ];
    elaborate(&Program {
        defs,
        roots: vec![Ty::Named(2, vec![])],
    })
    .registry
}

/// derives / attributes each probe item must carry under the model
fn expected_on(m: &Model, path: &str) -> (BTreeSet<String>, BTreeSet<String>) {
    let mut d = m.all_d.clone();
    let mut a = m.all_a.clone();
    let ancestors: &[&str] = match path {
        P => &[P],
        C => &[C, P],
        K => &[K, P],
        LF => &[LF, K, P],
        _ => &[Q],
    };
    if let Some(x) = m.spec_d.get(path) {
        d.extend(x.iter().cloned());
    }
    if let Some(x) = m.spec_a.get(path) {
        a.extend(x.iter().cloned());
    }
    for anc in ancestors {
        if let Some(x) = m.rec_d.get(*anc) {
            d.extend(x.iter().cloned());
        }
        if let Some(x) = m.rec_a.get(*anc) {
            a.extend(x.iter().cloned());
        }
    }
    (d, a)
}

/// Check one history: replay it on fresh real objects and on the model, compare after every call.
pub fn check_history(h: &[Call], ctx: &mut Ctx) -> Model {
    let replay = || json!({"check": "C16", "history": serde_json::to_value(h).unwrap()});
    let mut real = Real::new();
    let mut model = Model::default();
    for (i, c) in h.iter().enumerate() {
        let before = observe(&real);
        let want = model.apply(c);
        let got = guarded(|| real.apply(c));
        ctx.exec(1);
        let last = i + 1 == h.len();
        if !last {
            continue; // prefixes were checked when they were the whole history
        }
        match (&want, &got) {
            (_, Err(p)) => {
                ctx.violation(
                    "C16/panic",
                    format!("call {c:?} panics: {p}"),
                    replay(),
                    h.len(),
                );
                return model;
            }
            (Expected::Ok, Ok(Ok(()))) => {}
            (Expected::Err(k), Ok(Err(g))) => {
                if *k != g.as_str() {
                    ctx.violation(
                        format!("C16/error-kind/{k}"),
                        format!("call {c:?}: expected error kind {k}, got {g}"),
                        replay(),
                        h.len(),
                    );
                }
                // a rejected single insertion leaves the rules unchanged (extend keeps the pairs before it)
                if !matches!(c, Call::Extend(_)) && observe(&real).subs != before.subs {
                    ctx.violation(
                        "C16/rejected-but-changed",
                        format!(
                            "call {c:?} was rejected but changed the rules: {:?} -> {:?}",
                            before.subs,
                            observe(&real).subs
                        ),
                        replay(),
                        h.len(),
                    );
                }
            }
            (Expected::Ok, Ok(Err(g))) => ctx.violation(
                "C16/spurious-error",
                format!("valid call {c:?} rejected with {g}"),
                replay(),
                h.len(),
            ),
            (Expected::Err(k), Ok(Ok(()))) => ctx.violation(
                format!("C16/accepted-invalid/{k}"),
                format!("invalid call {c:?} accepted (expected {k})"),
                replay(),
                h.len(),
            ),
        }
    }
    // observable content equals the model
    let obs = observe(&real);
    let mut union_d: BTreeMap<String, BTreeSet<String>> = model.spec_d.clone();
    for (k, v) in &model.rec_d {
        union_d
            .entry(k.clone())
            .or_default()
            .extend(v.iter().cloned());
    }
    let mut union_a: BTreeMap<String, BTreeSet<String>> = model.spec_a.clone();
    for (k, v) in &model.rec_a {
        union_a
            .entry(k.clone())
            .or_default()
            .extend(v.iter().cloned());
    }
    // entries with empty sets are not observable differences
    let strip = |m: &BTreeMap<String, BTreeSet<String>>| -> BTreeMap<String, BTreeSet<String>> {
        m.iter()
            .filter(|(_, v)| !v.is_empty())
            .map(|(k, v)| (k.clone(), v.clone()))
            .collect()
    };
    if obs.all_d != model.all_d || obs.all_a != model.all_a {
        ctx.violation(
            "C16/global-sets",
            format!(
                "global derives/attributes {:?}/{:?}, model {:?}/{:?}",
                obs.all_d, obs.all_a, model.all_d, model.all_a
            ),
            replay(),
            h.len(),
        );
    }
    if strip(&obs.spec_d) != strip(&union_d) || strip(&obs.spec_a) != strip(&union_a) {
        ctx.violation(
            "C16/per-type-sets",
            format!(
                "per-type registrations {:?}/{:?}, model {:?}/{:?}",
                obs.spec_d, obs.spec_a, union_d, union_a
            ),
            replay(),
            h.len(),
        );
    }
    if obs.subs != model.subs {
        ctx.violation(
            "C16/substitute-rules",
            format!(
                "rules {:?}, model {:?} (last insert/extend wins, insert-if-absent never replaces)",
                obs.subs, model.subs
            ),
            replay(),
            h.len(),
        );
    }
    for k in model.subs.keys() {
        let segs: Vec<String> = k.split("::").map(|s| s.to_string()).collect();
        if !real.subs.contains(&segs) {
            ctx.violation(
                "C16/contains",
                format!("contains({k}) is false"),
                replay(),
                h.len(),
            );
        }
    }
    // the rules in force, observed by applying them: generation on a probe registry that uses the generic
    // `P<u32>`, `Vec<P<u8>>` and `Q` must give what a fresh rule set holding only the model's final rules gives
    // (a rule overwritten in place must not keep anything of the rule it replaced)
    if !model.subs.is_empty() {
        let mut fresh = TypeSubstitutes::new();
        let mut built = true;
        for (k, t) in &model.subs {
            let src = model.subs_src.get(k).cloned().unwrap_or_else(|| k.clone());
            match absolute_path(parse_path(t)) {
                Ok(t) => built &= fresh.insert(src_path(&src), t).is_ok(),
                Err(_) => built = false,
            }
        }
        if built {
            let preg = subst_probe_registry();
            let gen_with = |subs: &TypeSubstitutes| {
                let mut settings = SettingsSpec::default().build();
                settings.substitutes = subs.clone();
                generate(&preg, &settings)
            };
            ctx.exec(2);
            let a = gen_with(&real.subs);
            let b_ = gen_with(&fresh);
            let show = |o: &GenOutcome| match o {
                GenOutcome::Ok { tokens } => squash(tokens),
                other => format!("{other:?}"),
            };
            if show(&a) != show(&b_) {
                let (sa, sb) = (show(&a), show(&b_));
                let i = sa
                    .chars()
                    .zip(sb.chars())
                    .position(|(x, y)| x != y)
                    .unwrap_or(sa.len().min(sb.len()));
                let lo = i.saturating_sub(40);
                let cut = |s: &str| s.chars().skip(lo).take(120).collect::<String>();
                ctx.violation(
                    "C16/rules-applied-differ-from-fresh",
                    format!(
                        "after this history the rules {:?} generate …{}… but the same rules inserted into a fresh set generate …{}…",
                        model.subs_src,
                        cut(&sa),
                        cut(&sb)
                    ),
                    replay(),
                    h.len(),
                );
            }
        }
    }
    // the derives applied to the probe types (substitutes not applied here: they would remove the items)
    let reg = probe_registry();
    let mut settings = SettingsSpec::default().build();
    settings.derives = real.derives.clone();
    let (first, trace) = run_with(&Sched::identity(), || generate(&reg, &settings));
    for sc in schedules(&trace, 1, 6, 2) {
        let out = if sc.is_identity() {
            first.clone()
        } else {
            run_with(&sc, || generate(&reg, &settings)).0
        };
        ctx.exec(1);
        match out {
            GenOutcome::Ok { tokens } => match parse_emitted(&tokens) {
                Ok(em) => {
                    for path in [P, C, Q, K, LF] {
                        let mut full = vec!["types".to_string()];
                        full.extend(path.split("::").map(|s| s.to_string()));
                        let Some(item) = em.items.get(&full) else {
                            ctx.violation(
                                "C16/probe-item-missing",
                                format!("{path} not emitted"),
                                replay(),
                                h.len(),
                            );
                            continue;
                        };
                        let got_d: BTreeSet<String> = item.derives().into_iter().collect();
                        let got_a: BTreeSet<String> = item.attrs.iter().cloned().collect();
                        let (wd, wa) = expected_on(&model, path);
                        if got_d != wd || got_a != wa {
                            ctx.violation(
                                format!("C16/applied/{}", if got_d != wd { "derives" } else { "attributes" }),
                                format!(
                                    "{path} carries derives {got_d:?} attributes {got_a:?}; union of global, own and ancestors' recursive registrations is {wd:?} / {wa:?} (schedule {sc:?})"
                                ),
                                replay(),
                                h.len(),
                            );
                        }
                    }
                    ctx.outcome(&squash(&tokens));
                }
                Err(e) => ctx.violation("C16/unparsable", e, replay(), h.len()),
            },
            other => ctx.violation(
                "C16/probe-generation",
                format!("generation on the probe registry: {other:?}"),
                replay(),
                h.len(),
            ),
        }
    }
    model
}

pub fn run(tier: &str, seed: u64) -> i32 {
    let mut report = Report::new("C16", tier, seed, "model_checking");
    let thorough = tier == "thorough";
    let depth = if thorough { 4 } else { 3 };
    let wall = Duration::from_secs(if thorough { 1500 } else { 150 });
    let start = Instant::now();
    let alpha = alphabet();
    // BFS over abstract states; the representative history of a state is the first one that reached it
    let mut seen: HashMap<Model, Vec<Call>> = HashMap::new();
    seen.insert(Model::default(), vec![]);
    let mut frontier: Vec<(Model, Vec<Call>)> = vec![(Model::default(), vec![])];
    let mut st = Stats {
        driver: format!("D-hist(alphabet of {} builder calls, depth <= {depth}, histories merged by abstract settings)", alpha.len()),
        exhaustive: true,
        states: 1,
        ..Default::default()
    };
    let shared = std::sync::Mutex::new((
        Vec::<Violation>::new(),
        std::collections::HashSet::<u64>::new(),
        0u64,
    ));
    let mut completed = 0;
    for d in 0..depth {
        let results: Vec<Vec<(Model, Vec<Call>)>> = frontier
            .par_iter()
            .map(|(_, h)| {
                let mut out = vec![];
                for c in &alpha {
                    if start.elapsed() > wall {
                        break;
                    }
                    let mut h2 = h.clone();
                    h2.push(c.clone());
                    let mut ctx = Ctx::default();
                    let m = check_history(&h2, &mut ctx);
                    let mut sh = shared.lock().unwrap();
                    sh.0.extend(ctx.violations);
                    sh.1.extend(ctx.outcomes);
                    sh.2 += ctx.executed;
                    out.push((m, h2));
                }
                out
            })
            .collect();
        if start.elapsed() > wall {
            st.exhaustive = false;
            st.cap_hit = Some(format!(
                "wall cap {wall:?} hit at depth {}; depths <= {d} fully covered",
                d + 1
            ));
            break;
        }
        let mut next = vec![];
        for v in results {
            st.transitions += v.len() as u64;
            for (m, h) in v {
                if !seen.contains_key(&m) {
                    seen.insert(m.clone(), h.clone());
                    next.push((m, h));
                }
            }
        }
        st.per_depth.push(next.len() as u64);
        st.states += next.len() as u64;
        completed = d + 1;
        st.max_depth = completed;
        if st.samples.len() < 6 {
            if let Some((_, h)) = next.get((seed as usize) % next.len().max(1)) {
                st.samples.push(json!({"history": h}));
            }
        }
        frontier = next;
    }
    st.bound_completed = completed;
    let (viol, outcomes, executed) = shared.into_inner().unwrap();
    st.executed = executed;
    st.distinct_outcomes = outcomes.len() as u64;
    // group violations by signature, keep the shortest history
    let mut by: BTreeMap<String, (u64, Violation)> = BTreeMap::new();
    for v in viol {
        match by.get_mut(&v.sig) {
            Some((n, cur)) => {
                *n += 1;
                if v.size < cur.size {
                    *cur = v
                }
            }
            None => {
                by.insert(v.sig.clone(), (1, v));
            }
        }
    }
    st.violations = by
        .into_iter()
        .map(|(_, (n, mut v))| {
            v.detail = format!(
                "{} ({n} transitions fail this way; shortest history shown)",
                v.detail
            );
            v
        })
        .collect();
    st.wall_s = start.elapsed().as_secs_f64();
    // engine self-check: the number of abstract states must not depend on the exploration order
    report
        .extra
        .insert("distinct_abstract_states".into(), json!(seen.len()));
    report.extra.insert("hooks_enabled".into(), json!(HOOKS));
    report.add(st);
    report.assumptions = vec![
        "specific and recursive registrations cannot be told apart through the public getters; their split is observed through generation on a probe registry (P with child C, Q unrelated)".into(),
    ];
    report.finish()
}

pub fn replay(v: &serde_json::Value) -> Result<Vec<Violation>, String> {
    let h: Vec<Call> = serde_json::from_value(v["history"].clone()).map_err(|e| e.to_string())?;
    let mut ctx = Ctx::default();
    check_history(&h, &mut ctx);
    Ok(ctx.violations)
}
