//! C13 - type descriptions are faithful to the registry and always terminate.
//! A lock-step reader walks the description and the registry together.

use crate::checks::c01::truncate;
use crate::checks::c12::js;
use crate::drivers::*;
use crate::engine::*;
use crate::run::guarded;
use crate::spm::*;
use scale_info::{form::PortableForm, Field, PortableRegistry, Type, TypeDef, TypeDefPrimitive};
use scale_typegen_description::type_description;
use serde_json::{json, Value as Json};
use std::collections::BTreeSet;
use std::time::Duration;

fn prim_name(p: &TypeDefPrimitive) -> &'static str {
    match p {
        TypeDefPrimitive::Bool => "bool",
        TypeDefPrimitive::Char => "char",
        TypeDefPrimitive::Str => "String",
        TypeDefPrimitive::U8 => "u8",
        TypeDefPrimitive::U16 => "u16",
        TypeDefPrimitive::U32 => "u32",
        TypeDefPrimitive::U64 => "u64",
        TypeDefPrimitive::U128 => "u128",
        TypeDefPrimitive::U256 => "u256",
        TypeDefPrimitive::I8 => "i8",
        TypeDefPrimitive::I16 => "i16",
        TypeDefPrimitive::I32 => "i32",
        TypeDefPrimitive::I64 => "i64",
        TypeDefPrimitive::I128 => "i128",
        TypeDefPrimitive::I256 => "i256",
    }
}

pub struct Reader<'a> {
    reg: &'a PortableRegistry,
    /// the description with all whitespace removed
    text: Vec<char>,
    pos: usize,
    pub expanded: BTreeSet<u32>,
    depth: usize,
}

type R = Result<(), String>;

impl<'a> Reader<'a> {
    pub fn new(reg: &'a PortableRegistry, text: &str) -> Self {
        Reader {
            reg,
            text: text.chars().filter(|c| !c.is_whitespace()).collect(),
            pos: 0,
            expanded: BTreeSet::new(),
            depth: 0,
        }
    }

    fn rest(&self) -> String {
        self.text[self.pos..].iter().take(40).collect()
    }

    fn starts(&self, s: &str) -> bool {
        let cs: Vec<char> = s.chars().collect();
        self.text.len() >= self.pos + cs.len() && self.text[self.pos..self.pos + cs.len()] == cs[..]
    }

    fn eat(&mut self, s: &str, what: &str) -> R {
        if self.starts(s) {
            self.pos += s.chars().count();
            Ok(())
        } else {
            Err(format!(
                "expected `{s}` ({what}) at offset {}, found `{}`",
                self.pos,
                self.rest()
            ))
        }
    }

    pub fn at_end(&self) -> bool {
        self.pos == self.text.len()
    }

    fn ty(&self, id: u32) -> Result<&'a Type<PortableForm>, String> {
        self.reg
            .resolve(id)
            .ok_or_else(|| format!("id {id} not in registry"))
    }

    /// an identifier must not continue after `name` (so that `N` does not match `N1`)
    fn eat_ident(&mut self, name: &str, what: &str) -> R {
        self.eat(name, what)?;
        match self.text.get(self.pos) {
            Some(c) if c.is_alphanumeric() || *c == '_' => Err(format!(
                "expected identifier `{name}` ({what}) but the text continues with `{}`",
                self.rest()
            )),
            _ => Ok(()),
        }
    }

    /// `Name<params>` - the name form of a type (never expanded)
    fn name_form(&mut self, id: u32) -> R {
        self.depth += 1;
        if self.depth > 400 {
            return Err("nesting too deep".into());
        }
        let ty = self.ty(id)?;
        let r = (|| -> R {
            match &ty.type_def {
                TypeDef::Sequence(s) => {
                    self.eat("Vec<", "sequence in name form")?;
                    self.name_form(s.type_param.id)?;
                    self.eat(">", "end of Vec")
                }
                TypeDef::Array(a) => {
                    self.eat("[", "array in name form")?;
                    self.name_form(a.type_param.id)?;
                    self.eat(";", "array separator")?;
                    self.eat_ident(&a.len.to_string(), "array length")?;
                    self.eat("]", "end of array")
                }
                TypeDef::Tuple(t) => {
                    self.eat("(", "tuple in name form")?;
                    for (i, f) in t.fields.iter().enumerate() {
                        self.name_form(f.id)?;
                        if i + 1 < t.fields.len() || t.fields.len() == 1 {
                            self.eat(",", "tuple separator / one-element marker")?;
                        }
                    }
                    self.eat(")", "end of tuple (arity)")
                }
                TypeDef::Primitive(p) => self.eat_ident(prim_name(p), "primitive"),
                TypeDef::Compact(c) => {
                    self.eat("Compact<", "compact in name form")?;
                    self.name_form(c.type_param.id)?;
                    self.eat(">", "end of Compact")
                }
                TypeDef::BitSequence(_) => {
                    self.eat_ident("BitSequence", "bit sequence in name form")
                }
                TypeDef::Composite(_) | TypeDef::Variant(_) => self.ident_and_params(ty),
            }
        })();
        self.depth -= 1;
        r
    }

    fn ident_and_params(&mut self, ty: &'a Type<PortableForm>) -> R {
        let Some(ident) = ty.path.segments.last() else {
            return self.eat("_", "placeholder for a type without a name");
        };
        // the identifier is followed by `<`, or by something that is not an identifier character
        self.eat(ident, "type name")?;
        if ty.type_params.is_empty() {
            if matches!(self.text.get(self.pos), Some(c) if c.is_alphanumeric() || *c == '_') {
                return Err(format!(
                    "expected type name `{ident}` but the text continues with `{}`",
                    self.rest()
                ));
            }
            return Ok(());
        }
        self.eat("<", "generic arguments")?;
        for (i, p) in ty.type_params.iter().enumerate() {
            match p.ty {
                None => self.eat("_", "skipped type parameter")?,
                Some(t) => self.name_form(t.id)?,
            }
            if i + 1 < ty.type_params.len() {
                self.eat(",", "generic argument separator")?;
            }
        }
        self.eat(">", "end of generic arguments (arity)")
    }

    fn fields(&mut self, fields: &'a [Field<PortableForm>]) -> R {
        if fields.is_empty() {
            return self.eat("()", "empty field list");
        }
        let named = fields[0].name.is_some();
        self.eat(if named { "{" } else { "(" }, "field list")?;
        for (i, f) in fields.iter().enumerate() {
            if let Some(n) = &f.name {
                self.eat(n, "field name")?;
                self.eat(":", "field name separator")?;
            }
            let boxed = f
                .type_name
                .as_ref()
                .map(|t| t.contains("Box<"))
                .unwrap_or(false);
            if boxed {
                self.eat("Box<", "Box wrapper recorded in the field's type name")?;
            }
            self.read(f.ty.id)?;
            if boxed {
                self.eat(">", "end of Box")?;
            }
            if i + 1 < fields.len() {
                self.eat(",", "field separator")?;
            }
        }
        self.eat(
            if named { "}" } else { ")" },
            "end of field list (field count)",
        )
    }

    /// a position expecting type `id`: expanded form or name form
    pub fn read(&mut self, id: u32) -> R {
        self.depth += 1;
        if self.depth > 400 {
            return Err("nesting too deep".into());
        }
        let ty = self.ty(id)?;
        let r = (|| -> R {
            match &ty.type_def {
                TypeDef::Composite(c) => {
                    let name = ty.path.segments.last().cloned().unwrap_or_default();
                    if self.starts(&format!("struct{name}")) {
                        self.eat("struct", "struct keyword")?;
                        self.ident_and_params(ty)?;
                        self.expanded.insert(id);
                        self.fields(&c.fields)
                    } else {
                        self.ident_and_params(ty)
                    }
                }
                TypeDef::Variant(v) => {
                    let name = ty.path.segments.last().cloned().unwrap_or_default();
                    if self.starts(&format!("enum{name}")) {
                        self.eat("enum", "enum keyword")?;
                        self.ident_and_params(ty)?;
                        self.expanded.insert(id);
                        self.eat("{", "variant list")?;
                        for (i, var) in v.variants.iter().enumerate() {
                            self.eat(&var.name, "variant name")?;
                            if !var.fields.is_empty() {
                                self.fields(&var.fields)?;
                            } else if matches!(self.text.get(self.pos), Some(c) if c.is_alphanumeric() || *c == '_' || *c == '(' || *c == '{')
                            {
                                return Err(format!(
                                    "variant `{}` has no fields but the text continues with `{}`",
                                    var.name,
                                    self.rest()
                                ));
                            }
                            if i + 1 < v.variants.len() {
                                self.eat(",", "variant separator")?;
                            }
                        }
                        self.eat("}", "end of variant list (variant count)")
                    } else {
                        self.ident_and_params(ty)
                    }
                }
                TypeDef::Sequence(s) => {
                    self.eat("Vec<", "sequence")?;
                    self.read(s.type_param.id)?;
                    self.eat(">", "end of Vec")
                }
                TypeDef::Array(a) => {
                    self.eat("[", "array")?;
                    self.read(a.type_param.id)?;
                    self.eat(";", "array separator")?;
                    self.eat_ident(&a.len.to_string(), "array length")?;
                    self.eat("]", "end of array")
                }
                TypeDef::Tuple(t) => {
                    self.eat("(", "tuple")?;
                    for (i, f) in t.fields.iter().enumerate() {
                        self.read(f.id)?;
                        if i + 1 < t.fields.len() || t.fields.len() == 1 {
                            self.eat(",", "tuple separator / one-element marker")?;
                        }
                    }
                    self.eat(")", "end of tuple (arity)")
                }
                TypeDef::Primitive(p) => self.eat_ident(prim_name(p), "primitive"),
                TypeDef::Compact(c) => {
                    self.eat("Compact<", "compact")?;
                    self.read(c.type_param.id)?;
                    self.eat(">", "end of Compact")
                }
                TypeDef::BitSequence(b) => {
                    self.eat("BitSequence(", "bit sequence")?;
                    self.read(b.bit_order_type.id)?;
                    self.eat(",", "order/store separator")?;
                    self.read(b.bit_store_type.id)?;
                    self.eat(")", "end of bit sequence")
                }
            }
        })();
        self.depth -= 1;
        r
    }
}

/// structs/enums reachable from `id` through fields, variants and element types (bit store/order included)
fn reachable_defs(reg: &PortableRegistry, id: u32) -> BTreeSet<u32> {
    let mut seen = BTreeSet::new();
    let mut defs = BTreeSet::new();
    let mut stack = vec![id];
    while let Some(i) = stack.pop() {
        if !seen.insert(i) {
            continue;
        }
        let Some(t) = reg.resolve(i) else { continue };
        match &t.type_def {
            TypeDef::Composite(c) => {
                defs.insert(i);
                stack.extend(c.fields.iter().map(|f| f.ty.id));
            }
            TypeDef::Variant(v) => {
                defs.insert(i);
                stack.extend(
                    v.variants
                        .iter()
                        .flat_map(|v| v.fields.iter().map(|f| f.ty.id)),
                );
            }
            TypeDef::Sequence(s) => stack.push(s.type_param.id),
            TypeDef::Array(a) => stack.push(a.type_param.id),
            TypeDef::Tuple(t) => stack.extend(t.fields.iter().map(|f| f.id)),
            TypeDef::Compact(c) => stack.push(c.type_param.id),
            TypeDef::BitSequence(b) => {
                stack.push(b.bit_order_type.id);
                stack.push(b.bit_store_type.id);
            }
            TypeDef::Primitive(_) => {}
        }
    }
    defs
}

fn strip_ws(s: &str) -> String {
    s.chars().filter(|c| !c.is_whitespace()).collect()
}

pub fn check_registry(
    reg: &PortableRegistry,
    ids: &[u32],
    replay: &dyn Fn(u32) -> Json,
    ctx: &mut Ctx,
) {
    let size = reg.types.len();
    for &id in ids {
        ctx.exec(2);
        let plain = guarded(|| type_description(id, reg, false));
        let formatted = guarded(|| type_description(id, reg, true));
        let plain = match plain {
            Err(p) => {
                ctx.violation(
                    format!("C13/panic/{}", truncate(&p, 40)),
                    format!("type_description({id}) panics: {p}"),
                    replay(id),
                    size,
                );
                continue;
            }
            Ok(Err(e)) => {
                ctx.violation(
                    "C13/error",
                    format!(
                        "type_description({id}) on a well-formed registry fails: {}",
                        truncate(&format!("{e}"), 160)
                    ),
                    replay(id),
                    size,
                );
                continue;
            }
            Ok(Ok(s)) => s,
        };
        ctx.outcome(&plain);
        let mut rd = Reader::new(reg, &plain);
        match rd.read(id) {
            Err(e) => {
                let clause = e
                    .split('(')
                    .nth(1)
                    .and_then(|s| s.split(')').next())
                    .unwrap_or("mismatch")
                    .to_string();
                ctx.violation(
                    format!("C13/lockstep/{clause}"),
                    format!(
                        "description of id {id} = `{}` does not read against the registry: {e}",
                        truncate(&plain, 300)
                    ),
                    replay(id),
                    size,
                );
                continue;
            }
            Ok(()) => {
                if !rd.at_end() {
                    ctx.violation(
                        "C13/lockstep/trailing-text",
                        format!("description of id {id} has trailing text `{}`", rd.rest()),
                        replay(id),
                        size,
                    );
                    continue;
                }
            }
        }
        let want = reachable_defs(reg, id);
        let missing: Vec<u32> = want.difference(&rd.expanded).copied().collect();
        if !missing.is_empty() {
            let names: Vec<String> = missing
                .iter()
                .map(|i| {
                    reg.resolve(*i)
                        .map(|t| t.path.segments.join("::"))
                        .unwrap_or_default()
                })
                .collect();
            ctx.violation(
                "C13/never-expanded",
                format!("description of id {id} = `{}` never writes out {:?} in full although they are reachable", truncate(&plain, 300), names),
                replay(id),
                size,
            );
        }
        match formatted {
            Err(p) => ctx.violation(
                "C13/format-panic",
                format!("type_description({id}, format) panics: {p}"),
                replay(id),
                size,
            ),
            Ok(Err(e)) => ctx.violation(
                "C13/format-error",
                format!("formatted description fails: {e}"),
                replay(id),
                size,
            ),
            Ok(Ok(f)) => {
                if strip_ws(&f) != strip_ws(&plain) {
                    ctx.violation(
                        "C13/formatted-differs",
                        format!("formatted description differs from the unformatted one beyond whitespace: `{}` vs `{}`", truncate(&strip_ws(&f), 200), truncate(&strip_ws(&plain), 200)),
                        replay(id),
                        size,
                    );
                }
            }
        }
    }
}

pub fn worker_check(state: &Json, ctx: &mut Ctx) {
    if let Some(range) = state.get("polkadot") {
        let reg = RegSrc::Polkadot { retain: None }.registry();
        let lo = range[0].as_u64().unwrap_or(0) as u32;
        let hi = range[1].as_u64().unwrap_or(0) as u32;
        let ids: Vec<u32> = (lo..hi).collect();
        check_registry(
            &reg,
            &ids,
            &|id| json!({"check": "C13", "state": {"polkadot": [id, id + 1]}}),
            ctx,
        );
    } else {
        let prog: Program = serde_json::from_value(state["prog"].clone()).expect("program");
        let reg = elaborate(&prog).registry;
        let ids: Vec<u32> = (0..reg.types.len() as u32).collect();
        let src = prog.to_source();
        check_registry(
            &reg,
            &ids,
            &|id| json!({"check": "C13", "state": {"prog": serde_json::to_value(&prog).unwrap()}, "id": id, "source": src}),
            ctx,
        );
    }
}

pub fn run(tier: &str, seed: u64) -> i32 {
    let mut report = Report::new("C13", tier, seed, "model_checking");
    let thorough = tier == "thorough";
    let (mut states, info) = crate::checks::c12::description_states(thorough, 0);
    // generic definitions with skipped / unused parameters and recursion through the parameter
    {
        use crate::families::*;
        let d = DGeneric {
            max_fields: 2,
            max_insts: 1,
            include_cf3: true,
            body_forms: ALL_BODY_FORMS.to_vec(),
            param_forms: ALL_PARAM_FORMS.to_vec(),
        };
        let (all, _, _) = enumerate(&d, if thorough { 2 } else { 1 }, 2_000_000);
        for (_, s) in all {
            if crate::checks::c05::wf5_ok(&s) {
                states.push(js(
                    json!({"prog": serde_json::to_value(s.program()).unwrap()}),
                ));
            }
        }
    }
    let mut st = isolated_sweep(
        &format!(
            "{} + D-generic x every id x {{plain, formatted}} (worker subprocesses)",
            info.iter()
                .map(|i| i.0.clone())
                .collect::<Vec<_>>()
                .join(" + ")
        ),
        "C13",
        &states,
        200,
        Duration::from_secs(if thorough { 1200 } else { 150 }),
        Duration::from_secs(10),
        "C13",
    );
    st.transitions = info.iter().map(|i| i.2).sum::<u64>().max(st.states);
    report.add(st);
    report.assumptions = vec![
        "the reader accepts the expanded form or the name form at every position and requires every reachable struct/enum to be expanded at least once, exactly as the statement says; all comparisons are modulo whitespace".into(),
        "termination = every call returns within 10 s inside a worker subprocess".into(),
    ];
    report.finish()
}

pub fn replay(v: &Json) -> Result<Vec<Violation>, String> {
    let mut ctx = Ctx::default();
    worker_check(&v["state"], &mut ctx);
    Ok(ctx.violations)
}
