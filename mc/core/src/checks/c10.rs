//! C10 - documented failure conditions are errors, not panics, and the only ones.
//! Fault enumeration: every single fault of each documented kind at every site of every base
//! registry; plus the fault-free side over the registry drivers and the real-scale-info corpus.

use crate::checks::c01::truncate;
use crate::drivers::*;
use crate::engine::*;
use crate::run::*;
use crate::settings::SettingsSpec;
use crate::spm::*;
use scale_info::{form::PortableForm, PortableRegistry, TypeDef};
use serde::{Deserialize, Serialize};
use serde_json::json;
use std::time::Duration;

#[derive(Clone, Debug, PartialEq, Eq, Hash, Serialize, Deserialize)]
pub enum Fault {
    /// ids of entries i and i+1 swapped
    SwapIds(u32),
    /// every entry from i on has id = index + 1
    ShiftIds(u32),
    /// the name of field `field` of entry `entry` (variant `variant`) toggled -> named/unnamed mix
    MixFields {
        entry: u32,
        variant: Option<usize>,
        field: usize,
    },
    CompactPathNone,
    BitsPathNone,
    /// reference `site` redirected to a missing id
    Dangling {
        site: Site,
        to: u32,
    },
}

#[derive(Clone, Debug, PartialEq, Eq, Hash, Serialize, Deserialize)]
pub enum Site {
    Field {
        entry: u32,
        variant: Option<usize>,
        field: usize,
    },
    Elem {
        entry: u32,
    },
    TupleElem {
        entry: u32,
        index: usize,
    },
    BitStore {
        entry: u32,
    },
    BitOrder {
        entry: u32,
    },
    TypeParam {
        entry: u32,
        index: usize,
    },
}

impl Site {
    fn class(&self) -> &'static str {
        match self {
            Site::Field { variant: None, .. } => "struct-field",
            Site::Field { .. } => "variant-field",
            Site::Elem { .. } => "element",
            Site::TupleElem { .. } => "tuple-element",
            Site::BitStore { .. } => "bit-store",
            Site::BitOrder { .. } => "bit-order",
            Site::TypeParam { .. } => "type-param",
        }
    }
}

fn fields_mut(
    reg: &mut PortableRegistry,
    entry: u32,
    variant: Option<usize>,
) -> Option<&mut Vec<scale_info::Field<PortableForm>>> {
    match (&mut reg.types[entry as usize].ty.type_def, variant) {
        (TypeDef::Composite(c), None) => Some(&mut c.fields),
        (TypeDef::Variant(v), Some(i)) => v.variants.get_mut(i).map(|v| &mut v.fields),
        _ => None,
    }
}

pub fn inject(base: &PortableRegistry, f: &Fault) -> PortableRegistry {
    let mut r = base.clone();
    match f {
        Fault::SwapIds(i) => {
            let i = *i as usize;
            let a = r.types[i].id;
            r.types[i].id = r.types[i + 1].id;
            r.types[i + 1].id = a;
        }
        Fault::ShiftIds(i) => {
            for t in r.types.iter_mut().skip(*i as usize) {
                t.id += 1;
            }
        }
        Fault::MixFields {
            entry,
            variant,
            field,
        } => {
            if let Some(fs) = fields_mut(&mut r, *entry, *variant) {
                let f = &mut fs[*field];
                f.name = match f.name {
                    Some(_) => None,
                    None => Some("zz".into()),
                };
            }
        }
        Fault::CompactPathNone | Fault::BitsPathNone => {}
        Fault::Dangling { site, to } => {
            let to = *to;
            match site {
                Site::Field {
                    entry,
                    variant,
                    field,
                } => {
                    if let Some(fs) = fields_mut(&mut r, *entry, *variant) {
                        fs[*field].ty = to.into();
                    }
                }
                Site::Elem { entry } => match &mut r.types[*entry as usize].ty.type_def {
                    TypeDef::Sequence(s) => s.type_param = to.into(),
                    TypeDef::Array(a) => a.type_param = to.into(),
                    TypeDef::Compact(c) => c.type_param = to.into(),
                    _ => {}
                },
                Site::TupleElem { entry, index } => {
                    if let TypeDef::Tuple(t) = &mut r.types[*entry as usize].ty.type_def {
                        t.fields[*index] = to.into();
                    }
                }
                Site::BitStore { entry } => {
                    if let TypeDef::BitSequence(b) = &mut r.types[*entry as usize].ty.type_def {
                        b.bit_store_type = to.into();
                    }
                }
                Site::BitOrder { entry } => {
                    if let TypeDef::BitSequence(b) = &mut r.types[*entry as usize].ty.type_def {
                        b.bit_order_type = to.into();
                    }
                }
                Site::TypeParam { entry, index } => {
                    r.types[*entry as usize].ty.type_params[*index].ty = Some(to.into());
                }
            }
        }
    }
    r
}

/// all single faults of a base registry
pub fn faults_of(base: &PortableRegistry) -> Vec<Fault> {
    let n = base.types.len() as u32;
    let mut v = vec![];
    for i in 0..n.saturating_sub(1) {
        v.push(Fault::SwapIds(i));
    }
    for i in 0..n {
        v.push(Fault::ShiftIds(i));
    }
    let missing = n + 2;
    for t in &base.types {
        let e = t.id;
        let mut field_sites =
            |variant: Option<usize>, fs: &[scale_info::Field<PortableForm>], v: &mut Vec<Fault>| {
                for k in 0..fs.len() {
                    if fs.len() >= 2 {
                        v.push(Fault::MixFields {
                            entry: e,
                            variant,
                            field: k,
                        });
                    }
                    v.push(Fault::Dangling {
                        site: Site::Field {
                            entry: e,
                            variant,
                            field: k,
                        },
                        to: missing,
                    });
                }
            };
        match &t.ty.type_def {
            TypeDef::Composite(c) => field_sites(None, &c.fields, &mut v),
            TypeDef::Variant(var) => {
                for (i, x) in var.variants.iter().enumerate() {
                    field_sites(Some(i), &x.fields, &mut v);
                }
            }
            TypeDef::Sequence(_) | TypeDef::Array(_) | TypeDef::Compact(_) => {
                v.push(Fault::Dangling {
                    site: Site::Elem { entry: e },
                    to: missing,
                })
            }
            TypeDef::Tuple(tu) => {
                for i in 0..tu.fields.len() {
                    v.push(Fault::Dangling {
                        site: Site::TupleElem { entry: e, index: i },
                        to: missing,
                    });
                }
            }
            TypeDef::BitSequence(_) => {
                v.push(Fault::Dangling {
                    site: Site::BitStore { entry: e },
                    to: missing,
                });
                v.push(Fault::Dangling {
                    site: Site::BitOrder { entry: e },
                    to: missing,
                });
            }
            TypeDef::Primitive(_) => {}
        }
        for (i, p) in t.ty.type_params.iter().enumerate() {
            if p.ty.is_some() {
                v.push(Fault::Dangling {
                    site: Site::TypeParam { entry: e, index: i },
                    to: missing,
                });
            }
        }
    }
    // every dangling reference once to the first missing id (== len) and once further out
    let more: Vec<Fault> = v
        .iter()
        .filter_map(|f| match f {
            Fault::Dangling { site, .. } => Some(Fault::Dangling {
                site: site.clone(),
                to: n,
            }),
            _ => None,
        })
        .collect();
    v.extend(more);
    v.push(Fault::CompactPathNone);
    v.push(Fault::BitsPathNone);
    v
}

// ---------------------------------------------------------------------------
// reference traversal: what does naming a type path touch?

#[derive(Clone, Debug, PartialEq, Eq)]
pub enum Hit {
    Missing(u32),
    Compact,
    Bits,
}

struct Walk<'a> {
    reg: &'a PortableRegistry,
    substituted: &'a dyn Fn(&[String]) -> bool,
}

impl<'a> Walk<'a> {
    /// first problem met when the path of `id` is resolved with the given parent parameters
    /// (a parent parameter whose concrete id equals `id` stops the walk: the generic stands for it)
    fn path_with(
        &self,
        id: u32,
        parents: &[(u32, String)],
        name: Option<&str>,
        compact_ok: bool,
        bits_ok: bool,
        depth: usize,
    ) -> Option<Hit> {
        if depth > 64 {
            return None;
        }
        if parents
            .iter()
            .any(|(pid, pname)| *pid == id && name.map(|n| n == pname).unwrap_or(true))
        {
            return None;
        }
        let Some(mut ty) = self.reg.resolve(id) else {
            return Some(Hit::Missing(id));
        };
        if ty.path.segments.len() == 1 && ty.path.segments[0] == "Cow" {
            if let Some(inner) = ty.type_params.first().and_then(|p| p.ty) {
                match self.reg.resolve(inner.id) {
                    Some(t) => ty = t,
                    None => return Some(Hit::Missing(inner.id)),
                }
            }
        }
        for p in &ty.type_params {
            if let Some(t) = p.ty {
                if let Some(h) = self.path_with(t.id, parents, None, compact_ok, bits_ok, depth + 1)
                {
                    return Some(h);
                }
            }
        }
        let rec = |i: u32| self.path_with(i, parents, None, compact_ok, bits_ok, depth + 1);
        match &ty.type_def {
            TypeDef::Composite(_) | TypeDef::Variant(_) | TypeDef::Primitive(_) => None,
            TypeDef::Array(a) => rec(a.type_param.id),
            TypeDef::Sequence(s) => rec(s.type_param.id),
            TypeDef::Tuple(t) => t.fields.iter().find_map(|f| rec(f.id)),
            TypeDef::Compact(c) => {
                rec(c.type_param.id).or(if compact_ok { None } else { Some(Hit::Compact) })
            }
            TypeDef::BitSequence(b) => {
                if !bits_ok {
                    return Some(Hit::Bits);
                }
                rec(b.bit_order_type.id).or_else(|| rec(b.bit_store_type.id))
            }
        }
    }

    /// first problem `generate_types_mod` meets (entries in order, fields in order)
    fn generation(&self, compact_ok: bool, bits_ok: bool) -> Option<(Hit, u32)> {
        for t in &self.reg.types {
            let segs = &t.ty.path.segments;
            if segs.len() < 2 || (self.substituted)(segs) {
                continue;
            }
            let parents: Vec<(u32, String)> =
                t.ty.type_params
                    .iter()
                    .filter_map(|p| p.ty.map(|x| (x.id, p.name.clone())))
                    .collect();
            let all_fields: Vec<&scale_info::Field<PortableForm>> = match &t.ty.type_def {
                TypeDef::Composite(c) => c.fields.iter().collect(),
                TypeDef::Variant(v) => v.variants.iter().flat_map(|v| v.fields.iter()).collect(),
                _ => continue,
            };
            for f in all_fields {
                if let Some(h) = self.path_with(
                    f.ty.id,
                    &parents,
                    f.type_name.as_deref(),
                    compact_ok,
                    bits_ok,
                    0,
                ) {
                    return Some((h, t.id));
                }
            }
        }
        None
    }
}

fn is_user_def(t: &scale_info::PortableType) -> bool {
    t.ty.path.segments.len() >= 2
        && matches!(t.ty.type_def, TypeDef::Composite(_) | TypeDef::Variant(_))
}

#[derive(Clone, Debug, Serialize, Deserialize)]
pub struct FaultCase {
    pub base: Program,
    pub fault: Fault,
    /// the base has two instantiations of one generic definition (two entries under one path); only the
    /// calls whose behaviour does not pass through `types_equal` are judged (see `run`)
    #[serde(default)]
    pub shared_path_base: bool,
    /// evaluated under the additional substitute `p::a::G<T> -> ::ext::Opaque`
    #[serde(default)]
    pub drop_subst: bool,
}

thread_local! {
    /// evaluate faults under the additional substitute `p::a::G<T> -> ::ext::Opaque` (set around a batch of calls)
    static DROP_SUBST: std::cell::Cell<bool> = const { std::cell::Cell::new(false) };
}

/// Evaluate one fault on one base registry.
pub fn check_fault(
    base_prog: &Program,
    base: &PortableRegistry,
    fault: &Fault,
    shared: bool,
    ctx: &mut Ctx,
) {
    let reg = inject(base, fault);
    let mut spec = SettingsSpec::faithful();
    spec.root = "root".into();
    match fault {
        Fault::CompactPathNone => spec.compact_path = None,
        Fault::BitsPathNone => spec.bits_path = None,
        _ => {}
    }
    let drop_subst = DROP_SUBST.with(|d| d.get());
    if drop_subst {
        spec.substitutes.push(("p::a::G<T>".into(), "::ext::Opaque".into()));
    }
    let settings = spec.build();
    let subs: Vec<Vec<String>> = spec
        .substitutes
        .iter()
        .map(|(f, _)| f.split('<').next().unwrap_or("").split("::").map(|s| s.trim().to_string()).collect())
        .collect();
    let is_sub = move |p: &[String]| subs.iter().any(|s| s.as_slice() == p);
    let walk = Walk {
        reg: &reg,
        substituted: &is_sub,
    };
    let size = base.types.len();
    let replay = || json!({"check": "C10", "case": serde_json::to_value(FaultCase { base: base_prog.clone(), fault: fault.clone(), shared_path_base: shared, drop_subst }).unwrap(), "source": base_prog.to_source()});
    let kind = match fault {
        Fault::SwapIds(_) => "swap-ids".to_string(),
        Fault::ShiftIds(_) => "shift-ids".to_string(),
        Fault::MixFields { variant, .. } => format!(
            "mix-fields/{}",
            if variant.is_some() {
                "variant"
            } else {
                "struct"
            }
        ),
        Fault::CompactPathNone => "compact-path-none".into(),
        Fault::BitsPathNone => "bits-path-none".into(),
        Fault::Dangling { site, .. } => format!("dangling/{}", site.class()),
    };
    // ---- expectation for generate_types_mod
    let first_bad_id = reg
        .types
        .iter()
        .enumerate()
        .find(|(i, t)| t.id != *i as u32)
        .map(|(i, t)| (t.id, i as u32));
    let expect_gen: Option<ErrKind> = if let Some((given, expected)) = first_bad_id {
        Some(ErrKind::RegistryTypeIdsInvalid { given, expected })
    } else {
        // entries are created in registry order; the first faulty thing met decides
        let mut exp = None;
        for t in &reg.types {
            if !is_user_def(t) || is_sub(&t.ty.path.segments) {
                continue;
            }
            // mixed fields are detected per field list before any field is resolved
            let lists: Vec<&Vec<scale_info::Field<PortableForm>>> = match &t.ty.type_def {
                TypeDef::Composite(c) => vec![&c.fields],
                TypeDef::Variant(v) => v.variants.iter().map(|v| &v.fields).collect(),
                _ => vec![],
            };
            let parents: Vec<(u32, String)> =
                t.ty.type_params
                    .iter()
                    .filter_map(|p| p.ty.map(|x| (x.id, p.name.clone())))
                    .collect();
            'lists: for l in lists {
                let named = l.iter().filter(|f| f.name.is_some()).count();
                if named != 0 && named != l.len() {
                    exp = Some(ErrKind::InvalidFields);
                    break 'lists;
                }
                for f in l {
                    if let Some(h) = walk.path_with(
                        f.ty.id,
                        &parents,
                        f.type_name.as_deref(),
                        spec.compact_path.is_some(),
                        spec.bits_path.is_some(),
                        0,
                    ) {
                        exp = Some(match h {
                            Hit::Missing(i) => ErrKind::TypeNotFound(i),
                            Hit::Compact => ErrKind::CompactPathNone,
                            Hit::Bits => ErrKind::DecodedBitsPathNone,
                        });
                        break 'lists;
                    }
                }
            }
            if exp.is_some() {
                break;
            }
        }
        exp
    };
    let _ = walk.generation(true, true);
    ctx.exec(1);
    let got = generate(&reg, &settings);
    let got_kind = match &got {
        GenOutcome::Ok { .. } => "Ok".to_string(),
        GenOutcome::Err(e) => e.name(),
        GenOutcome::Panic(_) => "PANIC".to_string(),
    };
    ctx.outcome(&(
        kind.clone(),
        "generate",
        got_kind.clone(),
        expect_gen.is_some(),
    ));
    match (&got, &expect_gen) {
        (GenOutcome::Panic(m), _) => ctx.violation(
            format!("C10/panic/generate/{kind}"),
            format!(
                "generate_types_mod panics under fault {fault:?}: {}",
                truncate(m, 100)
            ),
            replay(),
            size,
        ),
        (GenOutcome::Ok { .. }, None) => {}
        (GenOutcome::Ok { .. }, Some(e)) => ctx.violation(
            format!("C10/accepted/generate/{kind}"),
            format!("generate_types_mod accepts fault {fault:?}; expected {e:?}"),
            replay(),
            size,
        ),
        (GenOutcome::Err(g), Some(e)) => {
            if g != e {
                ctx.violation(
                    format!("C10/wrong-error/generate/{kind}/{}", g.name()),
                    format!("generate_types_mod under fault {fault:?}: got {g:?}, expected {e:?}"),
                    replay(),
                    size,
                );
            }
        }
        (GenOutcome::Err(g), None) => ctx.violation(
            format!("C10/spurious-error/generate/{kind}/{}", g.name()),
            format!(
                "generate_types_mod under fault {fault:?} (which no generated type reaches): {g:?}"
            ),
            replay(),
            size,
        ),
    }
    // ---- ensure_unique_type_paths
    // (on a base with two entries under one path the shape comparison walks the entries, and its behaviour on
    // a dangling id is the documented "Panics if the given type ID is not found": only id faults are judged)
    if shared && first_bad_id.is_none() {
        return;
    }
    ctx.exec(1);
    let mut r2 = reg.clone();
    let got = guarded(|| {
        scale_typegen::utils::ensure_unique_type_paths(&mut r2).map_err(|e| ErrKind::of(&e))
    });
    let got_kind = match &got {
        Ok(Ok(())) => "Ok".to_string(),
        Ok(Err(e)) => e.name(),
        Err(_) => "PANIC".into(),
    };
    ctx.outcome(&(kind.clone(), "dedup", got_kind));
    match (got, first_bad_id) {
        (Err(p), _) => ctx.violation(
            format!("C10/panic/dedup/{kind}"),
            format!("ensure_unique_type_paths panics under fault {fault:?}: {}", truncate(&p, 100)),
            replay(),
            size,
        ),
        (Ok(Ok(())), None) => {}
        (Ok(Ok(())), Some((given, expected))) => ctx.violation(
            format!("C10/accepted/dedup/{kind}"),
            format!("ensure_unique_type_paths accepts ids that do not equal positions (given {given}, expected {expected})"),
            replay(),
            size,
        ),
        (Ok(Err(e)), Some((given, expected))) => {
            if e != (ErrKind::RegistryTypeIdsInvalid { given, expected }) {
                ctx.violation(
                    format!("C10/wrong-error/dedup/{kind}"),
                    format!("ensure_unique_type_paths: got {e:?}, expected RegistryTypeIdsInvalid{{given {given}, expected {expected}}}"),
                    replay(),
                    size,
                );
            }
        }
        (Ok(Err(e)), None) => ctx.violation(
            format!("C10/spurious-error/dedup/{kind}"),
            format!("ensure_unique_type_paths under fault {fault:?}: {e:?}"),
            replay(),
            size,
        ),
    }
    // ---- resolve_type_path for every id (and the missing one)
    if first_bad_id.is_none() {
        let mut ids: Vec<u32> = (0..reg.types.len() as u32).collect();
        ids.push(reg.types.len() as u32);
        ids.push(reg.types.len() as u32 + 2);
        for id in ids {
            ctx.exec(1);
            let want = walk
                .path_with(
                    id,
                    &[],
                    None,
                    spec.compact_path.is_some(),
                    spec.bits_path.is_some(),
                    0,
                )
                .map(|h| match h {
                    Hit::Missing(i) => ErrKind::TypeNotFound(i),
                    Hit::Compact => ErrKind::CompactPathNone,
                    Hit::Bits => ErrKind::DecodedBitsPathNone,
                });
            match (resolve_path(&reg, &settings, id), want) {
                (Err(p), _) => ctx.violation(
                    format!("C10/panic/resolve/{kind}"),
                    format!(
                        "resolve_type_path({id}) panics under fault {fault:?}: {}",
                        truncate(&p, 100)
                    ),
                    replay(),
                    size,
                ),
                (Ok(Ok(_)), None) => {}
                (Ok(Ok(p)), Some(e)) => ctx.violation(
                    format!("C10/accepted/resolve/{kind}"),
                    format!("resolve_type_path({id}) = {p} under fault {fault:?}; expected {e:?}"),
                    replay(),
                    size,
                ),
                (Ok(Err(g)), Some(e)) => {
                    if g != e {
                        ctx.violation(
                            format!("C10/wrong-error/resolve/{kind}/{}", g.name()),
                            format!("resolve_type_path({id}) under fault {fault:?}: got {g:?}, expected {e:?}"),
                            replay(),
                            size,
                        );
                    }
                }
                (Ok(Err(g)), None) => ctx.violation(
                    format!("C10/spurious-error/resolve/{kind}/{}", g.name()),
                    format!("resolve_type_path({id}) under fault {fault:?}: {g:?}"),
                    replay(),
                    size,
                ),
            }
        }
    }
}

/// fault-free side: generation is Ok or DuplicateTypePath, never another error, never a panic
pub fn check_fault_free(case: &Case, ctx: &mut Ctx) {
    let reg = case.reg.registry();
    let settings = case.settings.build();
    ctx.exec(1);
    let size = case.reg.size();
    // findings are identified by the INPUT that fails, not by the form the failure takes (a panic that becomes
    // an error is the same defect): the one recorded input class is a registry with `PhantomData` in type position
    let class = if reg.types.iter().any(|t| t.ty.path.segments.len() == 1 && t.ty.path.segments[0] == "PhantomData") {
        "phantomdata-in-type-position/"
    } else {
        ""
    };
    match generate(&reg, &settings) {
        GenOutcome::Ok { .. } => ctx.outcome(&"ok"),
        GenOutcome::Err(ErrKind::DuplicateTypePath(_)) => ctx.outcome(&"dup"),
        GenOutcome::Err(e) => ctx.violation(
            format!("C10/fault-free/{class}error/{}", e.name()),
            format!("generation on a well-formed registry fails with {e:?}"),
            case.replay("C10-free"),
            size,
        ),
        GenOutcome::Panic(m) => ctx.violation(
            format!("C10/fault-free/{class}{}/generate-panic", truncate(&m, 50)),
            format!("generation on a well-formed registry panics: {m}"),
            case.replay("C10-free"),
            size,
        ),
    }
    ctx.exec(1);
    let mut r2 = reg.clone();
    match guarded(|| {
        scale_typegen::utils::ensure_unique_type_paths(&mut r2).map_err(|e| ErrKind::of(&e))
    }) {
        Ok(Ok(())) => {}
        Ok(Err(e)) => ctx.violation(
            format!("C10/fault-free/{class}dedup-error/{}", e.name()),
            format!("ensure_unique_type_paths on a well-formed registry: {e:?}"),
            case.replay("C10-free"),
            size,
        ),
        Err(p) => ctx.violation(
            format!("C10/fault-free/{class}{}/dedup-panic", truncate(&p, 50)),
            format!("ensure_unique_type_paths panics: {p}"),
            case.replay("C10-free"),
            size,
        ),
    }
    for id in 0..reg.types.len() as u32 {
        ctx.exec(1);
        match resolve_path(&reg, &settings, id) {
            Ok(Ok(_)) => {}
            Ok(Err(e)) => ctx.violation(
                format!("C10/fault-free/{class}resolve-error/{}", e.name()),
                format!("resolve_type_path({id}) on a well-formed registry: {e:?}"),
                case.replay("C10-free"),
                size,
            ),
            Err(p) => ctx.violation(
                format!("C10/fault-free/{class}{}/resolve-panic", truncate(&p, 50)),
                format!("resolve_type_path({id}) panics: {p}"),
                case.replay("C10-free"),
                size,
            ),
        }
    }
}

/// structs and variants with three, four and five fields; unique paths
pub fn many_fields_program() -> Program {
    let m = ["p", "f"];
    let leaf = Ty::Named(0, vec![]);
    let tys = [U8, U16, U32, leaf.clone(), Ty::Vec(b(U8))];
    let names = ["a", "b", "c", "d", "e"];
    let mut defs = vec![Def::strukt(&m, "Leaf", &[], named(vec![("v", U32)]))];
    let mut host = vec![];
    for n in 3..=5usize {
        defs.push(Def::strukt(&m, &format!("S{n}"), &[], named((0..n).map(|i| (names[i], tys[i].clone())).collect())));
        host.push((format!("s{n}"), Ty::Named(defs.len() - 1, vec![])));
        defs.push(Def::strukt(&m, &format!("T{n}"), &[], Fields::Unnamed((0..n).map(|i| Field::new(tys[i].clone())).collect())));
        host.push((format!("t{n}"), Ty::Named(defs.len() - 1, vec![])));
    }
    defs.push(Def::enm(&m, "E", &[], vec![
        variant("N3", Fields::Named((0..3).map(|i| (names[i].to_string(), Field::new(tys[i].clone()))).collect())),
        variant("U3", Fields::Unnamed((0..3).map(|i| Field::new(tys[i].clone())).collect())),
        variant("N5", Fields::Named((0..5).map(|i| (names[i].to_string(), Field::new(tys[i].clone()))).collect())),
        variant("U4", Fields::Unnamed((0..4).map(|i| Field::new(tys[i].clone())).collect())),
    ]));
    host.push(("e".to_string(), Ty::Named(defs.len() - 1, vec![])));
    defs.push(Def::strukt(&["p", "h"], "Host", &[], Fields::Named(host.into_iter().map(|(n, t)| (n, Field::new(t))).collect())));
    let h = defs.len() - 1;
    Program { defs, roots: vec![Ty::Named(h, vec![])] }
}

pub fn run(tier: &str, seed: u64) -> i32 {
    let mut report = Report::new("C10", tier, seed, "fault_enumeration");
    let thorough = tier == "thorough";
    let d = DArms { max_depth: 2 };
    let budget = Budget {
        max_depth: if thorough { 2 } else { 1 },
        wall: Duration::from_secs(if thorough { 900 } else { 150 }),
        max_states: 10_000_000,
    };
    report.add(explore(&d, &budget, seed, |s, ctx| {
        for (prog, _) in arms_programs(&s.expr) {
            let base = elaborate(&prog).registry;
            // the quantifier: base registries with unique paths (G<G<u8>> has two entries at p::a::G)
            let mut paths = std::collections::BTreeSet::new();
            if base.types.iter().filter(|t| t.ty.path.segments.len() >= 2).any(|t| !paths.insert(t.ty.path.segments.clone())) {
                ctx.exclude("base registry has two entries with one path (outside the quantifier of the fault clause)");
                continue;
            }
            for f in faults_of(&base) {
                check_fault(&prog, &base, &f, false, ctx);
            }
            // ... and under a substitute that DROPS the parameter of the helper generic (`p::a::G<T> -> ::ext::Opaque`):
            // the argument of a substituted type is still resolved, so a fault in it is still reported
            if base.types.iter().any(|t| t.ty.path.segments.join("::") == "p::a::G") {
                DROP_SUBST.with(|d| d.set(true));
                for f in faults_of(&base) {
                    if matches!(f, Fault::Dangling { .. } | Fault::CompactPathNone | Fault::BitsPathNone) {
                        check_fault(&prog, &base, &f, false, ctx);
                    }
                }
                DROP_SUBST.with(|d| d.set(false));
            }
        }
    }));
    // a base with field lists of three, four and five fields (named, unnamed, in variants) and eleven entries: a
    // fault in the LAST of an odd number of fields, in an interior entry
    {
        let bases = vec![many_fields_program()];
        report.add(sweep(
            "faults x D-fields base (structs and variants with 3, 4 and 5 fields, named and unnamed)",
            &bases,
            Duration::from_secs(60),
            |p| json!({"program": p.to_source()}),
            |prog, ctx| {
                let base = elaborate(prog).registry;
                for f in faults_of(&base) {
                    check_fault(prog, &base, &f, false, ctx);
                }
            },
        ));
    }
    // bases in which one generic definition has two instantiations (two entries under one path that
    // `ensure_unique_type_paths` leaves alone: "unique paths" in the library's sense): a fault in the second
    // instantiation's entry, or in a helper below it, must be reported like any other
    {
        use crate::families::*;
        let dg = DGeneric {
            max_fields: if thorough { 2 } else { 1 },
            max_insts: 2,
            include_cf3: false,
            body_forms: ALL_BODY_FORMS.to_vec(),
            param_forms: if thorough {
                ALL_PARAM_FORMS.to_vec()
            } else {
                vec![ParamForm::One, ParamForm::Two, ParamForm::TwoSecondSkipped]
            },
        };
        let (gall, _, _) = enumerate(&dg, if thorough { 3 } else { 2 }, 5_000_000);
        let bases: Vec<Program> = gall
            .into_iter()
            .filter(|(_, s)| {
                s.insts.len() == 2 && !s.fields.is_empty() && crate::checks::c05::wf5_ok(s)
            })
            .filter_map(|(_, s)| {
                let prog = s.program();
                s.insts
                    .iter()
                    .all(|a| coincidence(&prog.defs[G_D], a, &prog).is_ok())
                    .then_some(prog)
            })
            .collect();
        report.add(sweep(
            &format!(
                "faults x D-generic bases with two coincidence-free instantiations (fields <= {}, {} parameter forms)",
                dg.max_fields,
                dg.param_forms.len()
            ),
            &bases,
            Duration::from_secs(if thorough { 900 } else { 150 }),
            |p| json!({"program": p.to_source()}),
            |prog, ctx| {
                let base = elaborate(prog).registry;
                // instantiations whose shapes differ (associated types) are C03/C04's subject
                let mut r2 = base.clone();
                let before: Vec<Vec<String>> = r2.types.iter().map(|t| t.ty.path.segments.clone()).collect();
                if scale_typegen::utils::ensure_unique_type_paths(&mut r2).is_err()
                    || before != r2.types.iter().map(|t| t.ty.path.segments.clone()).collect::<Vec<_>>()
                {
                    ctx.exclude("de-duplication renames something in the base (not unique paths)");
                    return;
                }
                // faults whose documented outcome does not depend on the shape comparison: id faults, missing
                // settings paths, and faults in the entries of the generic definition itself (the entry is
                // turned into an item, and fails there, before it is compared with the first instantiation)
                let is_d = |e: u32| base.types[e as usize].ty.path.segments.last().map(|l| l == "D").unwrap_or(false);
                for f in faults_of(&base) {
                    let direct = match &f {
                        Fault::SwapIds(_) | Fault::ShiftIds(_) | Fault::CompactPathNone | Fault::BitsPathNone => true,
                        Fault::MixFields { entry, .. } => is_d(*entry),
                        Fault::Dangling { site: Site::Field { entry, .. }, .. } => is_d(*entry),
                        Fault::Dangling { .. } => false,
                    };
                    if direct {
                        check_fault(prog, &base, &f, true, ctx);
                    } else {
                        ctx.note("faults below a shared-path entry not judged (shape comparison documented to panic on missing ids)", 1);
                    }
                }
            },
        ));
    }
    // fault-free side
    let settings = faithful_neighbourhood();
    let mut st = explore(
        &d,
        &Budget {
            max_depth: 2,
            wall: Duration::from_secs(60),
            max_states: 10_000_000,
        },
        seed,
        |s, ctx| {
            for (prog, pos) in arms_programs(&s.expr) {
                for n_name in SPECIAL_NAMES {
                    if n_name != "N" && s.depth > 0 {
                        continue;
                    }
                    let mut prog = prog.clone();
                    prog.defs[D_N].name = n_name.to_string();
                    for (sname, spec) in settings.iter().take(if s.depth >= 2 { 1 } else { 4 }) {
                        check_fault_free(
                            &Case::new(
                                RegSrc::Prog(prog.clone()),
                                spec.clone(),
                                format!("fault-free D-arms {pos} {sname} N={n_name}"),
                            ),
                            ctx,
                        );
                    }
                }
            }
        },
    );
    st.driver = format!("fault-free {}", st.driver);
    report.add(st);
    for mut st in crate::checks::families::generic_and_family_stats(
        "C10",
        thorough,
        seed,
        false,
        &|c, ctx| {
            let mut c = c.clone();
            c.dedup = false;
            check_fault_free(&c, ctx)
        },
    ) {
        st.driver = format!("fault-free {}", st.driver);
        report.add(st);
    }
    // substitute rules of every form on every use site (C07's driver): supported settings on well-formed
    // registries, so generation must not panic and must not fail
    {
        let (all, _, _) = enumerate(&crate::checks::c07::DSubst, 3, 1_000_000);
        let cases: Vec<Case> = all
            .iter()
            .filter(|(_, s)| s.use_.is_some() && s.rule.is_some())
            .map(|(_, s)| Case::new(RegSrc::Prog(s.program()), s.spec(), "fault-free D-subst"))
            .collect();
        report.add(sweep(
            "fault-free: D-subst (substitute rules of every form x every use site)",
            &cases,
            Duration::from_secs(60),
            |c| json!({"case": c.note, "reg": c.reg.describe()}),
            check_fault_free,
        ));
    }
    // registries produced by the real scale-info (the conformance corpus) and Polkadot
    let mut cases: Vec<Case> = crate::corpus::defs::real_registries()
        .into_iter()
        .map(|(name, r)| {
            Case::new(
                RegSrc::Raw(r),
                SettingsSpec::faithful(),
                format!("corpus root {name}"),
            )
        })
        .collect();
    let mut sp = SettingsSpec::faithful();
    sp.root = "runtime_types".into();
    cases.push(Case::new(RegSrc::Polkadot { retain: None }, sp, "polkadot"));
    for (pname, prog) in special_programs() {
        for (sname, spec) in faithful_neighbourhood() {
            cases.push(Case::new(RegSrc::Prog(prog.clone()), spec, format!("{pname} {sname}")));
        }
    }
    report.add(sweep(
        "fault-free: real scale-info registries of the conformance corpus + Polkadot",
        &cases,
        Duration::from_secs(60),
        |c| json!({"case": c.note}),
        check_fault_free,
    ));
    report.extra.insert(
        "rule".into(),
        json!("one evaluation = one API call (generate_types_mod / ensure_unique_type_paths / resolve_type_path per id) on one base registry with one injected fault (id swap, id shift, named/unnamed mix per field, compact path unset, bits path unset, dangling id per reference site) or on a fault-free registry; distinct = distinct (fault kind + site class, API, outcome, expected?) tuples"),
    );
    report.assumptions = vec![
        "which calls reach a fault is decided by a reference traversal written from the documented behaviour (generated types are the namespaced, non-substituted composites/variants in registry order; a type path touches type parameters and element types, not the fields of named types)".into(),
        "base registries have unique paths and no recursive derives, as the property's quantifier says".into(),
    ];
    report.finish()
}

pub fn replay(v: &serde_json::Value) -> Result<Vec<Violation>, String> {
    let mut ctx = Ctx::default();
    if v["check"] == "C10-free" {
        let case: Case = serde_json::from_value(v["case"].clone()).map_err(|e| e.to_string())?;
        check_fault_free(&case, &mut ctx);
    } else {
        let c: FaultCase = serde_json::from_value(v["case"].clone()).map_err(|e| e.to_string())?;
        let base = elaborate(&c.base).registry;
        DROP_SUBST.with(|d| d.set(c.drop_subst));
        check_fault(&c.base, &base, &c.fault, c.shared_path_base, &mut ctx);
        DROP_SUBST.with(|d| d.set(false));
    }
    Ok(ctx.violations)
}
