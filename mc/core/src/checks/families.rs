//! D-generic and D-family explorations shared by the checks whose oracle works on a plain
//! (registry, settings) case: C01, C02, C10 (fault-free side), C18.

use crate::checks::c05::wf5_ok;
use crate::drivers::*;
use crate::engine::*;
use crate::families::*;
use std::time::Duration;

/// `cf_only`: restrict D-generic to coincidence-free instantiation sets (C01's quantifier).
/// D-family states are handed over with `dedup = true` (the property's "after path de-duplication").
pub fn generic_and_family_stats(
    _prop: &str,
    thorough: bool,
    seed: u64,
    cf_only: bool,
    check: &(dyn Fn(&Case, &mut Ctx) + Sync),
) -> Vec<Stats> {
    let mut out = vec![];
    let settings = settings_small();
    let d = DGeneric {
        max_fields: 2,
        max_insts: if thorough { 3 } else { 2 },
        include_cf3: !cf_only,
        body_forms: ALL_BODY_FORMS.to_vec(),
        param_forms: ALL_PARAM_FORMS.to_vec(),
    };
    // depth = number of construction steps (fields added + further instantiations added)
    let budget = Budget {
        max_depth: if thorough { 3 } else { 2 },
        wall: Duration::from_secs(if thorough { 900 } else { 150 }),
        max_states: 40_000_000,
    };
    out.push(explore(&d, &budget, seed, |s, ctx| {
        if !wf5_ok(s) {
            ctx.exclude("WF5: parameter under compact instantiated with a non-compactable type");
            return;
        }
        let prog = s.program();
        if cf_only {
            for a in &s.insts {
                if let Err(why) = coincidence(&prog.defs[G_D], a, &prog) {
                    ctx.exclude(why);
                    return;
                }
            }
        }
        for (i, (sname, spec)) in settings.iter().enumerate() {
            if !thorough && i > 0 {
                continue;
            }
            let mut case = Case::new(
                RegSrc::Prog(prog.clone()),
                spec.clone(),
                format!("D-generic settings {sname}"),
            );
            // several instantiations with different associated types are different shapes under one path
            case.dedup = true;
            check(&case, ctx);
        }
        // a substituted generic INSIDE the generic definition: its arguments are resolved with the definition's
        // parameters in scope (`U8Keyed<_0>`, not the first instantiation's argument)
        if s.fields.iter().any(|f| matches!(f.ty, crate::spm::Ty::BTreeMap(..))) {
            let mut spec = settings[0].1.clone();
            spec.substitutes.push(("BTreeMap<K, V>".into(), "::ext::U8Keyed<V>".into()));
            let mut case = Case::new(
                RegSrc::Prog(prog.clone()),
                spec,
                "D-generic settings subst=btreemap-values",
            );
            case.dedup = true;
            check(&case, ctx);
        }
    }));
    // three instantiations (one field): beyond the depth explored above in the quick tier
    {
        let slice: Vec<GenState> = three_inst_slice(!cf_only)
            .into_iter()
            .filter(|s| wf5_ok(s))
            .filter(|s| {
                let prog = s.program();
                !cf_only || s.insts.iter().all(|a| coincidence(&prog.defs[G_D], a, &prog).is_ok())
            })
            .collect();
        out.push(sweep(
            "D-generic slice: one field x three instantiations in every order, the parameter or associated type three levels down x two and three instantiations, and definitions with three parameters (<= 2 fields, <= 2 instantiations)",
            &slice,
            Duration::from_secs(120),
            |s| serde_json::json!({"program": s.program().to_source()}),
            |s, ctx| {
                let mut case = Case::new(RegSrc::Prog(s.program()), settings[0].1.clone(), "D-generic, three instantiations");
                case.dedup = true;
                check(&case, ctx);
            },
        ));
    }
    let f = DFamily {
        max_members: 2,
        max_fields: 2,
        alphabet: FAM_ALPHABET.to_vec(),
        forms: if thorough {
            ALL_MEMBER_FORMS.to_vec()
        } else {
            vec![MemberForm::NamedStruct]
        },
        leads: if thorough { vec![0, 1, 2] } else { vec![0] },
        with_neighbours: false,
    };
    let budget = Budget {
        max_depth: 5,
        wall: Duration::from_secs(if thorough { 900 } else { 150 }),
        max_states: 40_000_000,
    };
    out.push(explore(&f, &budget, seed, |s, ctx| {
        let prog = s.program();
        let mut case = Case::new(
            RegSrc::Prog(prog),
            settings[0].1.clone(),
            "D-family after de-duplication",
        );
        case.dedup = true;
        check(&case, ctx);
    }));
    out
}
