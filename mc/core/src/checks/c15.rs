//! C15 - the description formatter only inserts whitespace and is total.
//!
//! Driver D-fmt: exhaustive families of strings, enumerated by depth-first construction
//! (a state is a string, a transition appends one symbol / fills one gap).

use crate::engine::*;
use crate::run::guarded;
use rayon::prelude::*;
use scale_typegen_description::format_type_description;
use serde_json::json;
use std::sync::atomic::{AtomicBool, AtomicU64, Ordering};
use std::sync::Mutex;
use std::time::{Duration, Instant};

const ALPHABET: [u8; 9] = [b'{', b'}', b'(', b')', b'<', b'>', b',', b'a', b' '];

fn strip_ws(s: &str) -> String {
    s.chars().filter(|c| !c.is_whitespace()).collect()
}

/// Whitespace-erasure oracle; returns a violation signature + detail.
fn check_erasure(input: &str) -> Result<String, (String, String)> {
    match guarded(|| format_type_description(input)) {
        Err(p) => Err((
            "C15/panic".into(),
            format!("format_type_description({input:?}) panics: {p}"),
        )),
        Ok(out) => {
            if strip_ws(&out) != strip_ws(input) {
                Err((
                    "C15/erasure".into(),
                    format!(
                        "format_type_description({input:?}) = {out:?}: without whitespace {:?} != {:?}",
                        strip_ws(&out),
                        strip_ws(input)
                    ),
                ))
            } else {
                Ok(out)
            }
        }
    }
}

/// Independent indentation reader for the output of a properly nested, whitespace-free input.
pub fn check_indentation(out: &str) -> Result<(), String> {
    let cs: Vec<char> = out.chars().collect();
    let mut stack: Vec<bool> = vec![]; // is the scope broken over several lines?
    let mut i = 0;
    while i < cs.len() {
        let c = cs[i];
        match c {
            '{' | '(' | '<' => {
                let broken = cs.get(i + 1) == Some(&'\n');
                stack.push(broken);
            }
            '}' | ')' | '>' => {
                if stack.pop().is_none() {
                    return Err(format!("closer at {i} without opener"));
                }
            }
            '\n' => {
                let mut j = i + 1;
                while j < cs.len() && cs[j] == ' ' {
                    j += 1;
                }
                let spaces = j - (i + 1);
                let next = cs.get(j).copied();
                let open_broken = stack.iter().filter(|b| **b).count();
                let mut expected = 4 * open_broken;
                if matches!(next, Some('}') | Some(')') | Some('>')) && stack.last() == Some(&true)
                {
                    expected -= 4;
                }
                if next == Some('{') {
                    expected += 1;
                }
                if spaces != expected {
                    return Err(format!(
                        "after the line break at offset {i}: {spaces} spaces, expected {expected} ({open_broken} broken scopes open, next char {next:?})"
                    ));
                }
                i = j;
                continue;
            }
            _ => {}
        }
        i += 1;
    }
    if !stack.is_empty() {
        return Err("scopes left open at the end".into());
    }
    Ok(())
}

struct Collector {
    states: AtomicU64,
    transitions: AtomicU64,
    outcomes: Mutex<std::collections::HashSet<u64>>,
    violations: Mutex<std::collections::BTreeMap<String, (u64, Violation)>>,
    stop: AtomicBool,
}

impl Collector {
    fn new() -> Self {
        Collector {
            states: AtomicU64::new(0),
            transitions: AtomicU64::new(0),
            outcomes: Mutex::new(Default::default()),
            violations: Mutex::new(Default::default()),
            stop: AtomicBool::new(false),
        }
    }
    fn violation(&self, sig: String, detail: String, input: &str) {
        let mut v = self.violations.lock().unwrap();
        let viol = Violation {
            sig: sig.clone(),
            detail,
            replay: json!({"check": "C15", "input": input}),
            size: input.len(),
        };
        match v.get_mut(&sig) {
            Some((n, cur)) => {
                *n += 1;
                if viol.size < cur.size {
                    *cur = viol
                }
            }
            None => {
                v.insert(sig, (1, viol));
            }
        }
    }
    fn into_stats(
        self,
        name: &str,
        depth: u32,
        start: Instant,
        exhaustive: bool,
        cap: Option<String>,
        samples: Vec<String>,
    ) -> Stats {
        let states = self.states.load(Ordering::Relaxed);
        Stats {
            driver: name.into(),
            states,
            transitions: self.transitions.load(Ordering::Relaxed),
            max_depth: depth,
            bound_completed: if exhaustive { depth } else { 0 },
            exhaustive,
            cap_hit: cap,
            executed: states,
            distinct_outcomes: self.outcomes.lock().unwrap().len() as u64,
            per_depth: vec![],
            excluded: Default::default(),
            notes: Default::default(),
            samples: samples.into_iter().map(|s| json!({"input": s})).collect(),
            violations: self
                .violations
                .into_inner()
                .unwrap()
                .into_iter()
                .map(|(_, (n, mut v))| {
                    v.detail = format!("{} ({n} inputs fail this way; smallest shown)", v.detail);
                    v
                })
                .collect(),
            wall_s: start.elapsed().as_secs_f64(),
        }
    }
}

/// the coarse "outcome" of one call: which whitespace decisions were taken
fn outcome_class(out: &str) -> u64 {
    let lines = out.matches('\n').count() as u64;
    let max_indent = out
        .split('\n')
        .map(|l| l.len() - l.trim_start_matches(' ').len())
        .max()
        .unwrap_or(0) as u64;
    lines.min(15) * 64 + max_indent.min(63)
}

// (i) all strings over the 9-symbol alphabet up to length n
fn family_all(n: usize, wall: Duration) -> Stats {
    let start = Instant::now();
    let col = Collector::new();
    let prefixes: Vec<Vec<u8>> = {
        // all strings of length <= 2 are checked here; deeper ones below each length-2 prefix
        let mut v = vec![];
        for a in ALPHABET {
            for b in ALPHABET {
                v.push(vec![a, b]);
            }
        }
        v
    };
    // lengths 0, 1
    let mut small = vec![String::new()];
    for a in ALPHABET {
        small.push((a as char).to_string());
    }
    for s in &small {
        col.states.fetch_add(1, Ordering::Relaxed);
        if let Err((sig, d)) = check_erasure(s) {
            col.violation(sig, d, s);
        }
    }
    col.transitions.fetch_add(9, Ordering::Relaxed);
    fn dfs(
        buf: &mut Vec<u8>,
        n: usize,
        col: &Collector,
        local: &mut (u64, u64, std::collections::HashSet<u64>),
        start: Instant,
        wall: Duration,
    ) {
        if col.stop.load(Ordering::Relaxed) {
            return;
        }
        let s = std::str::from_utf8(buf).unwrap();
        local.0 += 1;
        match check_erasure(s) {
            Err((sig, d)) => col.violation(sig, d, s),
            Ok(out) => {
                local.2.insert(outcome_class(&out));
            }
        }
        if local.0 % 65536 == 0 && start.elapsed() > wall {
            col.stop.store(true, Ordering::Relaxed);
        }
        if buf.len() < n {
            for a in ALPHABET {
                buf.push(a);
                local.1 += 1;
                dfs(buf, n, col, local, start, wall);
                buf.pop();
            }
        }
    }
    if n >= 2 {
        col.transitions.fetch_add(81, Ordering::Relaxed);
        prefixes.par_iter().for_each(|p| {
            let mut buf = p.clone();
            let mut local = (0u64, 0u64, std::collections::HashSet::new());
            dfs(&mut buf, n, &col, &mut local, start, wall);
            col.states.fetch_add(local.0, Ordering::Relaxed);
            col.transitions.fetch_add(local.1, Ordering::Relaxed);
            col.outcomes.lock().unwrap().extend(local.2);
        });
    }
    let capped = col.stop.load(Ordering::Relaxed);
    col.into_stats(
        &format!("D-fmt(i): all strings over {{ }} ( ) < > , a SPACE, length <= {n}"),
        n as u32,
        start,
        !capped,
        if capped {
            Some(format!(
                "wall cap {wall:?} hit; enumeration of length <= {n} incomplete"
            ))
        } else {
            None
        },
        vec!["".into(), "a<( ,}".into(), "{a,(a)}".into()],
    )
}

// (ii) all properly nested whitespace-free strings up to length n
fn family_nested(n: usize, wall: Duration) -> Stats {
    let start = Instant::now();
    let col = Collector::new();
    // state: (buffer, stack of expected closers); transitions: append letter/comma, open a bracket, close the innermost
    fn dfs(
        buf: &mut Vec<u8>,
        stack: &mut Vec<u8>,
        n: usize,
        col: &Collector,
        local: &mut (u64, u64, std::collections::HashSet<u64>),
        start: Instant,
        wall: Duration,
    ) {
        if col.stop.load(Ordering::Relaxed) {
            return;
        }
        if stack.is_empty() {
            let s = std::str::from_utf8(buf).unwrap();
            local.0 += 1;
            match check_erasure(s) {
                Err((sig, d)) => col.violation(sig, d, s),
                Ok(out) => {
                    local.2.insert(outcome_class(&out));
                    if let Err(e) = check_indentation(&out) {
                        col.violation(
                            "C15/indentation".into(),
                            format!("format_type_description({s:?}) = {out:?}: {e}"),
                            s,
                        );
                    }
                }
            }
            if local.0 % 65536 == 0 && start.elapsed() > wall {
                col.stop.store(true, Ordering::Relaxed);
            }
        }
        let remaining = n - buf.len();
        if remaining == 0 {
            return;
        }
        // close innermost
        if let Some(c) = stack.pop() {
            buf.push(c);
            local.1 += 1;
            dfs(buf, stack, n, col, local, start, wall);
            buf.pop();
            stack.push(c);
        }
        // neutral symbols and openers need room to close everything afterwards
        if remaining > stack.len() {
            for a in [b'a', b','] {
                buf.push(a);
                local.1 += 1;
                dfs(buf, stack, n, col, local, start, wall);
                buf.pop();
            }
        }
        if remaining >= stack.len() + 2 {
            for (o, c) in [(b'{', b'}'), (b'(', b')'), (b'<', b'>')] {
                buf.push(o);
                stack.push(c);
                local.1 += 1;
                dfs(buf, stack, n, col, local, start, wall);
                stack.pop();
                buf.pop();
            }
        }
    }
    // parallelise over the first two construction steps
    let mut seeds: Vec<(Vec<u8>, Vec<u8>)> = vec![];
    let firsts: Vec<(Vec<u8>, Vec<u8>)> = vec![
        (vec![b'a'], vec![]),
        (vec![b','], vec![]),
        (vec![b'{'], vec![b'}']),
        (vec![b'('], vec![b')']),
        (vec![b'<'], vec![b'>']),
    ];
    for (b0, s0) in &firsts {
        // second step
        let mut nexts: Vec<(Vec<u8>, Vec<u8>)> = vec![];
        if let Some(c) = s0.last() {
            let mut b = b0.clone();
            b.push(*c);
            nexts.push((b, vec![]));
        }
        for a in [b'a', b','] {
            let mut b = b0.clone();
            b.push(a);
            nexts.push((b, s0.clone()));
        }
        for (o, c) in [(b'{', b'}'), (b'(', b')'), (b'<', b'>')] {
            let mut b = b0.clone();
            b.push(o);
            let mut s = s0.clone();
            s.push(c);
            nexts.push((b, s));
        }
        seeds.extend(nexts);
    }
    // the empty string and the one-symbol states
    {
        let mut local = (0u64, 0u64, std::collections::HashSet::<u64>::new());
        for s in ["", "a", ","] {
            local.0 += 1;
            match check_erasure(s) {
                Err((sig, d)) => col.violation(sig, d, s),
                Ok(out) => {
                    if let Err(e) = check_indentation(&out) {
                        col.violation(
                            "C15/indentation".into(),
                            format!("{s:?} -> {out:?}: {e}"),
                            s,
                        );
                    }
                }
            }
        }
        col.states.fetch_add(local.0, Ordering::Relaxed);
        col.transitions
            .fetch_add(5 + seeds.len() as u64, Ordering::Relaxed);
    }
    seeds.par_iter().for_each(|(b, s)| {
        let feasible = b.len() + s.len() <= n;
        if !feasible {
            return;
        }
        let mut buf = b.clone();
        let mut stack = s.clone();
        let mut local = (0u64, 0u64, std::collections::HashSet::new());
        // the seed state "a"/"," at length 1 was already counted; dfs counts complete (balanced) states only
        dfs(&mut buf, &mut stack, n, &col, &mut local, start, wall);
        col.states.fetch_add(local.0, Ordering::Relaxed);
        col.transitions.fetch_add(local.1, Ordering::Relaxed);
        col.outcomes.lock().unwrap().extend(local.2);
    });
    let capped = col.stop.load(Ordering::Relaxed);
    col.into_stats(
        &format!("D-fmt(ii): all properly nested whitespace-free strings over {{}} () <> , a, length <= {n}"),
        n as u32,
        start,
        !capped,
        if capped { Some(format!("wall cap {wall:?} hit; enumeration of length <= {n} incomplete")) } else { None },
        vec!["a<(a,a),{a}>".into(), "{(<>)}".into()],
    )
}

// (iii) macro-letter strings: properly nested skeletons with <= k pairs, every gap filled with a run
// of letters of a length around the 32-character look-ahead, optionally followed by a comma.
fn family_macro(pairs: usize, lens: &[usize], with_commas: bool, wall: Duration) -> Stats {
    let start = Instant::now();
    let col = Collector::new();
    // enumerate skeletons
    fn skeletons(k: usize) -> Vec<String> {
        fn go(buf: &mut String, stack: &mut Vec<char>, opens_left: usize, out: &mut Vec<String>) {
            if opens_left == 0 && stack.is_empty() {
                out.push(buf.clone());
                return;
            }
            if let Some(c) = stack.pop() {
                buf.push(c);
                go(buf, stack, opens_left, out);
                buf.pop();
                stack.push(c);
            }
            if opens_left > 0 {
                for (o, c) in [('{', '}'), ('(', ')'), ('<', '>')] {
                    buf.push(o);
                    stack.push(c);
                    go(buf, stack, opens_left - 1, out);
                    stack.pop();
                    buf.pop();
                }
            }
        }
        let mut out = vec![];
        for n in 1..=k {
            go(&mut String::new(), &mut vec![], n, &mut out);
        }
        out
    }
    let sk = skeletons(pairs);
    let mut fills: Vec<String> = vec![];
    for l in lens {
        fills.push("a".repeat(*l));
        if with_commas {
            fills.push(format!("{},", "a".repeat(*l)));
        }
    }
    sk.par_iter().for_each(|s| {
        let chars: Vec<char> = s.chars().collect();
        let gaps = chars.len() + 1;
        let mut idx = vec![0usize; gaps];
        let mut local = (0u64, std::collections::HashSet::new());
        loop {
            if col.stop.load(Ordering::Relaxed) {
                break;
            }
            let mut input = String::new();
            for g in 0..gaps {
                input.push_str(&fills[idx[g]]);
                if g < chars.len() {
                    input.push(chars[g]);
                }
            }
            local.0 += 1;
            match check_erasure(&input) {
                Err((sig, d)) => col.violation(sig, d, &input),
                Ok(out) => {
                    local.1.insert(outcome_class(&out));
                    if let Err(e) = check_indentation(&out) {
                        col.violation(
                            "C15/indentation".into(),
                            format!("format_type_description({input:?}) = {out:?}: {e}"),
                            &input,
                        );
                    }
                }
            }
            if local.0 % 4096 == 0 && start.elapsed() > wall {
                col.stop.store(true, Ordering::Relaxed);
            }
            // next filling (odometer)
            let mut g = 0;
            loop {
                if g == gaps {
                    break;
                }
                idx[g] += 1;
                if idx[g] < fills.len() {
                    break;
                }
                idx[g] = 0;
                g += 1;
            }
            if g == gaps {
                break;
            }
        }
        col.states.fetch_add(local.0, Ordering::Relaxed);
        col.transitions.fetch_add(local.0, Ordering::Relaxed);
        col.outcomes.lock().unwrap().extend(local.1);
    });
    let capped = col.stop.load(Ordering::Relaxed);
    col.into_stats(
        &format!(
            "D-fmt(iii): skeletons of <= {pairs} bracket pairs, gaps = letter runs of length {lens:?}{}",
            if with_commas { " optionally followed by a comma" } else { "" }
        ),
        (2 * pairs + 1) as u32,
        start,
        !capped,
        if capped { Some(format!("wall cap {wall:?} hit")) } else { None },
        vec![format!("({}<{}>)", "a".repeat(31), "a".repeat(32))],
    )
}

// (v) deep nesting: every sequence of d <= dmax openers over { ( < around `{a}`; every enclosing scope
// contains a `{`, so all of them are broken over several lines and the indentation grows to depth d+1
fn family_deep(dmax: usize, wall: Duration) -> Stats {
    let start = Instant::now();
    let col = Collector::new();
    let mut seqs: Vec<Vec<u8>> = vec![vec![]];
    let mut all: Vec<Vec<u8>> = vec![vec![]];
    for _ in 0..dmax {
        let mut next = vec![];
        for s in &seqs {
            for o in [b'{', b'(', b'<'] {
                let mut n = s.clone();
                n.push(o);
                next.push(n);
            }
        }
        all.extend(next.iter().cloned());
        seqs = next;
    }
    all.par_iter().for_each(|openers| {
        if col.stop.load(Ordering::Relaxed) {
            return;
        }
        let mut input = String::new();
        for o in openers {
            input.push(*o as char);
        }
        input.push_str("{a}");
        for o in openers.iter().rev() {
            input.push(match o {
                b'{' => '}',
                b'(' => ')',
                _ => '>',
            });
        }
        col.states.fetch_add(1, Ordering::Relaxed);
        col.transitions.fetch_add(1, Ordering::Relaxed);
        match check_erasure(&input) {
            Err((sig, d)) => col.violation(sig, d, &input),
            Ok(out) => {
                col.outcomes.lock().unwrap().insert(outcome_class(&out));
                if let Err(e) = check_indentation(&out) {
                    col.violation(
                        "C15/indentation".into(),
                        format!("format_type_description({input:?}) = {out:?}: {e}"),
                        &input,
                    );
                }
            }
        }
        if start.elapsed() > wall {
            col.stop.store(true, Ordering::Relaxed);
        }
    });
    let capped = col.stop.load(Ordering::Relaxed);
    col.into_stats(
        &format!("D-fmt(v): all nestings of <= {dmax} broken scopes over {{ ( < around `{{a}}` (indentation depth up to {})", dmax + 1),
        dmax as u32,
        start,
        !capped,
        if capped { Some(format!("wall cap {wall:?} hit")) } else { None },
        vec!["(<{({a})}>)".into()],
    )
}

// (vi) chains: one scope per level, the openers following every pattern of period <= 3 over { ( <, to a depth no
// fixed-size buffer of a plausible size covers; (vii) a two- and a three-byte letter at every offset 0..=40 behind
// every opener (look-ahead windows are counted in characters, not bytes)
fn family_chains_and_wide_letters(dmax: usize, wall: Duration) -> Stats {
    let start = Instant::now();
    let col = Collector::new();
    let mut inputs: Vec<String> = vec![];
    let mut patterns: Vec<Vec<char>> = vec![];
    for a in ['{', '(', '<'] {
        patterns.push(vec![a]);
        for b_ in ['{', '(', '<'] {
            patterns.push(vec![a, b_]);
            for c in ['{', '(', '<'] {
                patterns.push(vec![a, b_, c]);
            }
        }
    }
    let close = |o: char| match o {
        '{' => '}',
        '(' => ')',
        _ => '>',
    };
    for p in &patterns {
        for d in 1..=dmax {
            let mut s = String::new();
            let mut stack = vec![];
            for i in 0..d {
                let o = p[i % p.len()];
                s.push('a');
                s.push(o);
                stack.push(o);
            }
            s.push_str("{x,y}");
            while let Some(o) = stack.pop() {
                s.push(close(o));
            }
            inputs.push(s);
        }
    }
    let n_chains = inputs.len();
    for o in ['{', '(', '<'] {
        for wide in ["\u{e9}", "\u{4e2d}"] {
            for k in 0..=40usize {
                // at top level, and inside a scope that is already broken
                inputs.push(format!("T{o}{}{wide}b,u{}", "a".repeat(k), close(o)));
                inputs.push(format!("s{{f:T{o}{}{wide}{wide},u{},g:{{h}}}}", "a".repeat(k), close(o)));
            }
        }
    }
    inputs.par_iter().for_each(|input| {
        if col.stop.load(Ordering::Relaxed) {
            return;
        }
        col.states.fetch_add(1, Ordering::Relaxed);
        col.transitions.fetch_add(1, Ordering::Relaxed);
        match check_erasure(input) {
            Err((sig, d)) => col.violation(sig, d, input),
            Ok(out) => {
                col.outcomes.lock().unwrap().insert(outcome_class(&out));
                if let Err(e) = check_indentation(&out) {
                    col.violation("C15/indentation".into(), format!("format_type_description({input:?}) = {out:?}: {e}"), input);
                }
            }
        }
        if start.elapsed() > wall {
            col.stop.store(true, Ordering::Relaxed);
        }
    });
    let capped = col.stop.load(Ordering::Relaxed);
    col.into_stats(
        &format!(
            "D-fmt(vi, vii): {n_chains} chains (39 opener patterns of period <= 3, depth 1..={dmax}); a 2-byte and a 3-byte letter at every offset 0..=40 behind each opener, at top level and inside a broken scope"
        ),
        dmax as u32,
        start,
        !capped,
        if capped { Some(format!("wall cap {wall:?} hit")) } else { None },
        vec!["a{a(a<{x,y}>)}".into(), "T(aaa\u{e9}b,u)".into()],
    )
}

// (iv) every description the crate itself produces for the Polkadot registry and the D-arms registries
fn family_descriptions(wall: Duration) -> Stats {
    use crate::drivers::*;
    let reg = crate::run::polkadot_registry();
    let ids: Vec<u32> = (0..reg.types.len() as u32).collect();
    let mut inputs: Vec<String> = ids
        .par_iter()
        .filter_map(|id| {
            guarded(|| scale_typegen_description::type_description(*id, &reg, false).ok())
                .ok()
                .flatten()
        })
        .collect();
    for leaf in arms_leaves() {
        for w in arms_wrappers(&leaf) {
            let p = arms_program(&w, Position::NamedVariant, false, "N");
            let e = crate::spm::elaborate(&p);
            for id in 0..e.registry.types.len() as u32 {
                if let Ok(Ok(d)) =
                    guarded(|| scale_typegen_description::type_description(id, &e.registry, false))
                {
                    inputs.push(d);
                }
            }
        }
    }
    inputs.sort();
    inputs.dedup();
    sweep(
        "D-fmt(iv): every unformatted description of the Polkadot registry (918 ids) and of the D-arms depth-1 registries",
        &inputs,
        wall,
        |s| json!({"input": crate::checks::c01::truncate(s, 200)}),
        |s, ctx| {
            ctx.exec(1);
            match check_erasure(s) {
                Err((sig, d)) => ctx.violation(sig, d, json!({"check": "C15", "input": s}), s.len()),
                Ok(out) => {
                    ctx.outcome(&outcome_class(&out));
                    // descriptions contain ": " and "; " separators, i.e. they are not whitespace-free;
                    // the indentation clause is stated for whitespace-free input, so feed the stripped text too
                    let stripped = strip_ws(s);
                    match check_erasure(&stripped) {
                        Err((sig, d)) => ctx.violation(sig, d, json!({"check": "C15", "input": stripped}), stripped.len()),
                        Ok(out2) => {
                            if let Err(e) = check_indentation(&out2) {
                                ctx.violation(
                                    "C15/indentation",
                                    format!("format_type_description({:?}): {e}", crate::checks::c01::truncate(&stripped, 300)),
                                    json!({"check": "C15", "input": stripped}),
                                    stripped.len(),
                                );
                            }
                        }
                    }
                }
            }
        },
    )
}

pub fn run(tier: &str, seed: u64) -> i32 {
    let thorough = tier == "thorough";
    let mut report = Report::new("C15", tier, seed, "model_checking");
    let (n_all, n_nested) = if thorough { (10, 14) } else { (8, 11) };
    report.add(family_all(
        n_all,
        Duration::from_secs(if thorough { 1500 } else { 150 }),
    ));
    report.add(family_nested(
        n_nested,
        Duration::from_secs(if thorough { 900 } else { 150 }),
    ));
    if thorough {
        report.add(family_macro(
            2,
            &[0, 1, 29, 30, 31, 32, 33],
            true,
            Duration::from_secs(600),
        ));
        report.add(family_macro(
            3,
            &[0, 1, 30, 31, 32],
            false,
            Duration::from_secs(900),
        ));
    } else {
        report.add(family_macro(
            2,
            &[0, 1, 29, 30, 31, 32, 33],
            false,
            Duration::from_secs(30),
        ));
        report.add(family_macro(
            1,
            &[0, 1, 29, 30, 31, 32, 33],
            true,
            Duration::from_secs(10),
        ));
    }
    report.add(family_deep(
        if thorough { 13 } else { 10 },
        Duration::from_secs(if thorough { 600 } else { 60 }),
    ));
    report.add(family_chains_and_wide_letters(if thorough { 80 } else { 40 }, Duration::from_secs(60)));
    report.add(family_descriptions(Duration::from_secs(120)));
    report.assumptions = vec![
        "termination is observed as completion of every call inside the run's wall budget (the formatter consumes one input character per loop iteration)".into(),
        "the 'randomly for longer strings' clause of the quantifier is not sampled: longer strings are covered only by the structured macro-letter family and by the crate's own descriptions".into(),
    ];
    report.finish()
}

pub fn replay(input: &str) -> Vec<Violation> {
    let mut out = vec![];
    match check_erasure(input) {
        Err((sig, d)) => out.push(Violation {
            sig,
            detail: d,
            replay: json!({"check":"C15","input":input}),
            size: input.len(),
        }),
        Ok(o) => {
            // indentation clause applies to properly nested whitespace-free input
            let balanced = {
                let mut st = vec![];
                let mut ok = true;
                for c in input.chars() {
                    match c {
                        '{' => st.push('}'),
                        '(' => st.push(')'),
                        '<' => st.push('>'),
                        '}' | ')' | '>' => ok &= st.pop() == Some(c),
                        _ => {}
                    }
                }
                ok && st.is_empty() && !input.chars().any(|c| c.is_whitespace())
            };
            if balanced {
                if let Err(e) = check_indentation(&o) {
                    out.push(Violation {
                        sig: "C15/indentation".into(),
                        detail: format!("{input:?} -> {o:?}: {e}"),
                        replay: json!({"check":"C15","input":input}),
                        size: input.len(),
                    });
                }
            }
        }
    }
    out
}
