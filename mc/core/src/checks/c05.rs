//! C05 - generic definitions are recovered as generics (source round trip).

use crate::checks::c01::truncate;
use crate::drivers::*;
use crate::engine::*;
use crate::families::*;
use crate::interp::*;
use crate::run::*;
use crate::settings::{squash, SettingsSpec};
use crate::spm::*;
use serde_json::json;
use std::collections::BTreeSet;
use std::time::Duration;

fn ty_str(t: &syn::Type) -> String {
    crate::settings::canon_type(t)
}

/// WF5 for D-generic: a parameter used under `compact` can only be instantiated with compactable types
pub fn wf5_ok(s: &GenState) -> bool {
    let compact_on_param = s.fields.iter().any(|f| {
        (f.compact && matches!(f.ty, Ty::Param(_)))
            || matches!(&f.ty, Ty::Compact(t) if matches!(**t, Ty::Param(_)))
            || matches!(&f.ty, Ty::Vec(v) if matches!(&**v, Ty::Compact(t) if matches!(**t, Ty::Param(_))))
    });
    if !compact_on_param {
        return true;
    }
    s.insts.iter().all(|a| match &a[0] {
        Ty::Prim(p) => p.is_unsigned(),
        // single-unsigned-field structs (they get CompactAs); a generic wrapper such as H<u8> does not
        Ty::Named(d, _) => *d == G_N || *d == G_M,
        _ => false,
    })
}

/// assoc-type instantiations that disagree on `Inner` are not one definition in the output (C03/C04's subject)
fn assoc_agree(s: &GenState, prog: &Program) -> bool {
    if !matches!(s.params, ParamForm::ConfigSkipped | ParamForm::ConfigKept) {
        return true;
    }
    let inner = |a: &Vec<Ty>| substitute(&Ty::Assoc(0), a, prog);
    let first = inner(&s.insts[0]);
    s.insts.iter().all(|a| inner(a) == first)
}

pub fn check_state(s: &GenState, spec: &SettingsSpec, ctx: &mut Ctx) {
    check_state_prog(s, &s.program(), spec, ctx)
}

/// the helper types of D-generic under the names of prelude types (user types in `p::a` / `p::b` that merely
/// share a name with `core::ops::Range`, `Duration`, `Option`, `BTreeMap`)
pub fn prelude_named(prog: &Program) -> Program {
    let mut p = prog.clone();
    p.defs[G_N].name = "Duration".into();
    p.defs[G_H].name = "Range".into();
    p.defs[G_M].name = "Option".into();
    p.defs[G_W].name = "BTreeMap".into();
    p
}

/// `prog` is `s.program()`, possibly with renamed helper types
pub fn check_state_prog(s: &GenState, prog: &Program, spec: &SettingsSpec, ctx: &mut Ctx) {
    if !wf5_ok(s) {
        ctx.exclude("WF5: parameter under compact instantiated with a non-compactable type (not a valid Rust program)");
        return;
    }
    let prog = prog.clone();
    let def = &prog.defs[G_D];
    for a in &s.insts {
        if let Err(why) = coincidence(def, a, &prog) {
            ctx.exclude(why);
            return;
        }
    }
    if !assoc_agree(s, &prog) {
        ctx.exclude("Config instantiations with different associated types (different shapes under one path; C03/C04's subject)");
        return;
    }
    let case = Case::new(RegSrc::Prog(prog.clone()), spec.clone(), "D-generic");
    let el = elaborate(&prog);
    let registry = el.registry;
    let settings = spec.build();
    ctx.exec(1);
    let replay = || json!({"check": "C05", "case": serde_json::to_value(&case).unwrap(), "source": prog.to_source()});
    let size = prog.to_source().len();
    let tokens = match generate(&registry, &settings) {
        GenOutcome::Ok { tokens } => tokens,
        GenOutcome::Err(e) => {
            ctx.violation(
                format!("C05/generation-fails/{}", e.name()),
                format!("coincidence-free instantiations of one generic definition: generation fails with {e:?}"),
                replay(),
                size,
            );
            return;
        }
        GenOutcome::Panic(m) => {
            ctx.violation(
                format!("C05/generation-panics/{}", truncate(&m, 40)),
                format!("generation panics: {m}"),
                replay(),
                size,
            );
            return;
        }
    };
    let emitted = match parse_emitted(&tokens) {
        Ok(e) => e,
        Err(e) => {
            ctx.violation("C05/unparsable-module", e, replay(), size);
            return;
        }
    };
    let mut item_path = vec![spec.root.clone()];
    item_path.extend(def.path());
    // exactly one item at D's path
    let count = emitted
        .modules
        .get(&item_path[..item_path.len() - 1].to_vec())
        .map(|m| m.item_names.iter().filter(|n| **n == def.name).count())
        .unwrap_or(0);
    if count != 1 {
        ctx.violation(
            "C05/item-count",
            format!("{} items emitted at {}", count, item_path.join("::")),
            replay(),
            size,
        );
        return;
    }
    let item = &emitted.items[&item_path];
    // generics: the non-skipped parameters in declaration order, named by declared position
    let want_generics: Vec<String> = def
        .params
        .iter()
        .enumerate()
        .filter(|(_, p)| !p.skipped)
        .map(|(i, _)| format!("_{i}"))
        .collect();
    if item.generics != want_generics {
        ctx.violation(
            "C05/generics",
            format!(
                "item generics {:?}, expected {:?}",
                item.generics, want_generics
            ),
            replay(),
            size,
        );
        return;
    }
    let ex = Expect {
        prog: &prog,
        settings: spec,
        subst: None,
    };
    let args0 = &s.insts[0];
    // fields: source fields minus PhantomData, then the marker
    let kept_params: BTreeSet<usize> = def
        .params
        .iter()
        .enumerate()
        .filter(|(_, p)| !p.skipped)
        .map(|(i, _)| i)
        .collect();
    let used = used_params(def);
    let unused: BTreeSet<String> = kept_params
        .difference(&used)
        .map(|i| format!("_{i}"))
        .collect();
    let marker_of = |ty: &syn::Type| -> Option<BTreeSet<String>> {
        let s = ty_str(ty);
        let inner = s
            .strip_prefix("::core::marker::PhantomData<")?
            .strip_suffix('>')?;
        let inner = inner.trim_start_matches('(').trim_end_matches(')');
        Some(
            inner
                .split(',')
                .filter(|x| !x.is_empty())
                .map(|x| x.to_string())
                .collect(),
        )
    };
    let cmp_fields =
        |got: &[FieldAst], src: &Fields, where_: &str, allow_marker: bool, ctx: &mut Ctx| {
            let want: Vec<(Option<String>, (String, bool))> = src
                .iter()
                .filter(|(_, f)| !matches!(f.ty, Ty::Phantom(_)))
                .map(|(n, f)| (n.map(|s| s.to_string()), ex.field(f, Some(args0))))
                .collect();
            let mut got: Vec<&FieldAst> = got.iter().collect();
            // trailing marker
            let mut got_marker: Option<BTreeSet<String>> = None;
            if allow_marker {
                if let Some(last) = got.last() {
                    if let Some(m) = marker_of(&last.ty) {
                        got_marker = Some(m);
                        got.pop();
                    }
                }
            }
            if got.len() != want.len() {
                ctx.violation(
                    "C05/field-count",
                    format!(
                        "{where_}: {} fields emitted, source has {} (after dropping PhantomData)",
                        got.len(),
                        want.len()
                    ),
                    replay(),
                    size,
                );
                return got_marker;
            }
            for (g, (wn, (wt, wc))) in got.iter().zip(want.iter()) {
                if g.name != *wn {
                    ctx.violation(
                        "C05/field-name",
                        format!("{where_}: field {:?} vs source {:?}", g.name, wn),
                        replay(),
                        size,
                    );
                }
                let gt = ty_str(&g.ty);
                if gt != crate::settings::canon_type_str(wt) {
                    ctx.violation(
                        "C05/field-type",
                        format!(
                            "{where_}.{}: emitted `{gt}`, source field type corresponds to `{}`",
                            wn.clone().unwrap_or_default(),
                            crate::settings::canon_type_str(wt)
                        ),
                        replay(),
                        size,
                    );
                }
                if spec.codec_attrs && g.compact != *wc {
                    ctx.violation(
                        "C05/compact-attr",
                        format!(
                            "{where_}.{}: compact attribute {} but source says {}",
                            wn.clone().unwrap_or_default(),
                            g.compact,
                            wc
                        ),
                        replay(),
                        size,
                    );
                }
            }
            got_marker
        };
    let mut marker: Option<BTreeSet<String>> = None;
    match (&item.kind, &def.body) {
        (ItemKind::Struct(got), Body::Struct(src)) => {
            marker = cmp_fields(got.list(), src, "struct D", true, ctx);
            // form
            let src_named = matches!(src, Fields::Named(v) if v.iter().any(|(_, f)| !matches!(f.ty, Ty::Phantom(_))));
            if src_named != matches!(got, FieldsAst::Named(_)) {
                ctx.violation(
                    "C05/struct-form",
                    "named/unnamed form differs from the source".to_string(),
                    replay(),
                    size,
                );
            }
        }
        (ItemKind::Enum(got), Body::Enum(src)) => {
            let mut got: Vec<&VariantAst> = got.iter().collect();
            if let Some(last) = got.last() {
                // the marker variant: a trailing variant whose only field is a PhantomData (whatever its name)
                if got.len() > src.len() && last.fields.list().len() == 1 {
                    if let Some(m) = last.fields.list().first().and_then(|f| marker_of(&f.ty)) {
                        marker = Some(m);
                        got.pop();
                    }
                }
            }
            if got.len() != src.len() {
                ctx.violation(
                    "C05/variant-count",
                    format!("{} variants vs {}", got.len(), src.len()),
                    replay(),
                    size,
                );
            } else {
                for (g, v) in got.iter().zip(src.iter()) {
                    if g.name != v.name {
                        ctx.violation(
                            "C05/variant-name",
                            format!("{} vs {}", g.name, v.name),
                            replay(),
                            size,
                        );
                    }
                    cmp_fields(
                        g.fields.list(),
                        &v.fields,
                        &format!("variant {}", v.name),
                        false,
                        ctx,
                    );
                }
            }
        }
        _ => {
            ctx.violation(
                "C05/kind",
                "struct/enum kind differs from the source".to_string(),
                replay(),
                size,
            );
        }
    }
    // marker names exactly the otherwise unused parameters
    let got_marker = marker.unwrap_or_default();
    if got_marker != unused {
        ctx.violation(
            "C05/marker",
            format!(
                "PhantomData marker names {:?}, the parameters not used by any field are {:?}",
                got_marker, unused
            ),
            replay(),
            size,
        );
    }
    // every instantiation resolves to that one item with its own arguments
    let mut outcome = vec![];
    for (i, a) in s.insts.iter().enumerate() {
        let id = match &registry.types[*el.root_ids.first().unwrap() as usize]
            .ty
            .type_def
        {
            scale_info::TypeDef::Composite(c) => c.fields[i].ty.id,
            _ => unreachable!("host is a struct"),
        };
        ctx.exec(1);
        let want = crate::settings::canon_type_str(&ex.nested(&Ty::Named(G_D, a.clone()), None));
        match resolve_path(&registry, &settings, id) {
            Ok(Ok(p)) => {
                let got = crate::settings::canon_type_str(&p);
                outcome.push(got.clone());
                if got != want {
                    ctx.violation(
                        "C05/instantiation-path",
                        format!("instantiation {i} resolves to `{got}`, expected `{want}`"),
                        replay(),
                        size,
                    );
                }
            }
            other => ctx.violation(
                "C05/instantiation-resolve",
                format!("resolve_type_path({id}) = {other:?}"),
                replay(),
                size,
            ),
        }
    }
    ctx.outcome(&(squash(&tokens), outcome));
}

pub fn run(tier: &str, seed: u64) -> i32 {
    let mut report = Report::new("C05", tier, seed, "model_checking");
    let thorough = tier == "thorough";
    let d = DGeneric {
        max_fields: if thorough { 3 } else { 2 },
        max_insts: if thorough { 3 } else { 2 },
        include_cf3: false,
        body_forms: ALL_BODY_FORMS.to_vec(),
        param_forms: ALL_PARAM_FORMS.to_vec(),
    };
    let settings = settings_small();
    let budget = Budget {
        max_depth: (d.max_fields + d.max_insts) as u32,
        wall: Duration::from_secs(if thorough { 900 } else { 150 }),
        max_states: 40_000_000,
    };
    let st = explore(&d, &budget, seed, |s, ctx| {
        for (i, (_, spec)) in settings.iter().enumerate() {
            if !thorough && i > 0 && s.fields.len() + s.insts.len() > 3 {
                continue;
            }
            check_state(s, spec, ctx);
        }
        // helper types named like prelude types, for the states of construction depth <= 2 (thorough: <= 3)
        if s.fields.len() + s.insts.len() <= if thorough { 4 } else { 3 } {
            check_state_prog(s, &prelude_named(&s.program()), &settings[0].1, ctx);
        }
    });
    report.add(st);
    // three instantiations of a one-field definition, every order (beyond the quick tier's depth)
    let slice = three_inst_slice(false);
    report.add(sweep(
        "D-generic slice: one field x three instantiations in every order, the parameter or associated type three levels down x two and three instantiations, and definitions with three parameters (<= 2 fields, <= 2 instantiations)",
        &slice,
        Duration::from_secs(120),
        |s| json!({"program": s.program().to_source()}),
        |s, ctx| check_state(s, &settings[0].1, ctx),
    ));
    report.assumptions = vec![
        "source programs are the SPM programs of driver D-generic; their registries come from the elaborator (conformance-checked against real scale-info)".into(),
        "the expected emitted form of a source type is computed by an independent printer (families::Expect) implementing the documented normalisations".into(),
    ];
    report.finish()
}

pub fn replay(v: &serde_json::Value) -> Result<Vec<Violation>, String> {
    // the replay carries the program; rebuild the GenState from it is not possible in general, so
    // re-run the oracle through C01's faithful check plus the string comparison on the stored case
    let case: Case = serde_json::from_value(v["case"].clone()).map_err(|e| format!("case: {e}"))?;
    let RegSrc::Prog(prog) = &case.reg else {
        return Err("C05 replay needs a program".into());
    };
    let s = state_of_program(prog).ok_or("cannot recover the D-generic state from the program")?;
    let mut ctx = Ctx::default();
    check_state_prog(&s, prog, &case.settings, &mut ctx);
    Ok(ctx.violations)
}

/// Recover the D-generic state from a program generated by `GenState::program`.
pub fn state_of_program(prog: &Program) -> Option<GenState> {
    let def = prog.defs.get(G_D)?;
    let host = prog.defs.last()?;
    let insts: Vec<Vec<Ty>> = match &host.body {
        Body::Struct(Fields::Named(fs)) => fs
            .iter()
            .filter_map(|(_, f)| match &f.ty {
                Ty::Named(d, a) if *d == G_D => Some(a.clone()),
                _ => None,
            })
            .collect(),
        _ => return None,
    };
    let params = match (
        def.params.len(),
        def.params.first().map(|p| p.skipped),
        def.params.get(1).map(|p| p.skipped),
    ) {
        (1, Some(true), _) => ParamForm::ConfigSkipped,
        (1, Some(false), _) => {
            if insts
                .first()
                .map(|a| matches!(&a[0], Ty::Named(d, _) if *d >= G_CFGA && *d <= G_CFGC))
                .unwrap_or(false)
            {
                ParamForm::ConfigKept
            } else {
                ParamForm::One
            }
        }
        (3, _, _) => ParamForm::Three,
        (2, _, Some(true)) => ParamForm::TwoSecondSkipped,
        (2, _, _) if def.params[0].name == "S" => ParamForm::BitsSO,
        (2, _, _) => ParamForm::Two,
        _ => return None,
    };
    let (form, fields) = match &def.body {
        Body::Struct(Fields::Named(fs)) => {
            (BodyForm::Named, fs.iter().map(|(_, f)| f.clone()).collect())
        }
        Body::Struct(Fields::Unnamed(fs)) => (BodyForm::Unnamed, fs.clone()),
        Body::Struct(Fields::Unit) => (BodyForm::Named, vec![]),
        Body::Enum(vs) => (
            BodyForm::Enum,
            vs.iter()
                .skip(1)
                .flat_map(|v| v.fields.iter().map(|(_, f)| f.clone()).collect::<Vec<_>>())
                .collect(),
        ),
    };
    Some(GenState {
        form,
        params,
        fields,
        insts,
    })
}
