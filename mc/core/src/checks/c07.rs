//! C07 - type substitution is complete and parameter-correct.

use crate::checks::c01::truncate;
use crate::drivers::*;
use crate::engine::*;
use crate::families::Expect;
use crate::interp::*;
use crate::run::*;
use crate::settings::{parse_path, squash, SettingsSpec};
use crate::spm::*;
use serde::{Deserialize, Serialize};
use serde_json::json;
use std::time::Duration;

#[derive(Clone, Copy, Debug, PartialEq, Eq, Hash, Serialize, Deserialize)]
pub enum SForm {
    /// S {v: u8}
    Plain,
    /// S<T> {a: T}
    One,
    /// S<T, U> {a: T, b: U}
    Two,
    /// S<T, U> {a: T} with U skipped
    TwoSecondSkipped,
    /// the prelude BTreeMap<K, V>
    BTreeMap,
}
pub const SFORMS: [SForm; 5] = [
    SForm::Plain,
    SForm::One,
    SForm::Two,
    SForm::TwoSecondSkipped,
    SForm::BTreeMap,
];

#[derive(Clone, Copy, Debug, PartialEq, Eq, Hash, Serialize, Deserialize)]
pub enum Use {
    Root,
    NamedField,
    UnnamedField,
    VariantField,
    Boxed,
    InVec,
    InOption,
    InArray,
    InTuple,
    ArgOfOther,
    ArgOfItself,
    InGenericParent,
    /// `Par2<A, T> { a: A, f: S<T, N> }`: the argument is the parent's SECOND parameter (`_1`)
    InGenericParent2,
    MapValue,
    /// `f: Cow<'static, S<..>>`: reached through the transparent prelude Cow
    InCow,
    /// `f: Vec<Cow<'static, S<..>>>`
    InVecCow,
    /// the resolved arguments are not paths: `S<(u8, u16), [u8; 2]>`
    TupleAndArrayArgs,
    /// `S<(), Vec<N>>`
    UnitArg,
}
pub const USES: [Use; 18] = [
    Use::Root,
    Use::NamedField,
    Use::UnnamedField,
    Use::VariantField,
    Use::Boxed,
    Use::InVec,
    Use::InOption,
    Use::InArray,
    Use::InTuple,
    Use::ArgOfOther,
    Use::ArgOfItself,
    Use::InGenericParent,
    Use::InGenericParent2,
    Use::MapValue,
    Use::InCow,
    Use::InVecCow,
    Use::TupleAndArrayArgs,
    Use::UnitArg,
];

/// (source generics as written, target as written)
pub fn rule_forms() -> Vec<(&'static str, &'static str)> {
    vec![
        ("", "::t::X"),
        ("<A, B>", "::t::X<A, B>"),
        ("<A, B>", "::t::X<B, A>"),
        ("<A, B>", "::x::W<::y::V<A>, B>"),
        ("<A, B>", "::t::X<A, A>"),
        ("<A, B>", "::t::X<A, ::core::primitive::u8>"),
        ("<A, B>", "::t::X<B>"),
        ("<A>", "::t::X<A, A, ::z::Q>"),
        ("<A, B>", "::t::X"),
        ("", "::t::X<::q::Z>"),
        ("<A>", "crate::t::X<A>"),
        ("<A, B>", "::t::Outer<::t::Mid<::t::In<B>>, A>"),
        ("<_0, _1>", "::t::X<_1, ::t::F, _0>"),
        ("<A, B, C>", "::t::X<C, B, A>"),
        // a fixed extra argument whose LAST segment is spelled like a source parameter: not a parameter
        ("<A, B>", "::t::X<A, ::m::A, B>"),
        // identity-shaped with FEWER declared generics than the type has: the declared ones only
        ("<A>", "::t::X<A>"),
        // the parameters occur ONLY nested in the target (the shape of the documented Static<MultiAddress<A, B>> rule)
        ("<A, B>", "::t::Static<::t::Multi<A, B>>"),
        // the same target text as the second form with the source names permuted (a result remembered under the
        // target's text and the arguments must not be reused)
        ("<B, A>", "::t::X<A, B>"),
        // round 10 (C07-m19): a fixed argument given as a RELATIVE multi-segment path whose last segment is spelled
        // like a source parameter (`m::B`): only a lone identifier is a parameter
        ("<A, B>", "::t::X<A, m::B, B>"),
    ]
}

#[derive(Clone, Debug, PartialEq, Eq, Hash, Serialize, Deserialize)]
pub struct SubstState {
    pub sform: SForm,
    pub use_: Option<Use>,
    pub rule: Option<usize>,
    /// a second, simultaneous rule `p::a::N -> ::t::NN<B>`: the helper type N (an argument of most
    /// uses) is substituted too, by a target that contains a literal generic spelled like a source
    /// parameter of the first rule
    #[serde(default)]
    pub second: bool,
}

const D_NN: usize = 0; // N {v: u32}
const D_HH: usize = 1; // H<T> {g: T}
const D_S: usize = 2;

impl SubstState {
    fn s_ty(&self, a0: Ty, a1: Ty) -> Ty {
        match self.sform {
            SForm::Plain => Ty::Named(D_S, vec![]),
            SForm::One => Ty::Named(D_S, vec![a0]),
            SForm::Two | SForm::TwoSecondSkipped => Ty::Named(D_S, vec![a0, a1]),
            SForm::BTreeMap => Ty::BTreeMap(b(a0), b(a1)),
        }
    }

    pub fn program(&self) -> Program {
        let mut defs = vec![
            Def::strukt(&["p", "a"], "N", &[], named(vec![("v", U32)])),
            Def::strukt(&["p", "a"], "H", &["T"], named(vec![("g", Ty::Param(0))])),
        ];
        let s = match self.sform {
            SForm::Plain | SForm::BTreeMap => {
                Def::strukt(&["p", "s"], "S", &[], named(vec![("v", U8)]))
            }
            SForm::One => Def::strukt(&["p", "s"], "S", &["T"], named(vec![("a", Ty::Param(0))])),
            SForm::Two => Def::strukt(
                &["p", "s"],
                "S",
                &["T", "U"],
                named(vec![("a", Ty::Param(0)), ("b", Ty::Param(1))]),
            ),
            SForm::TwoSecondSkipped => {
                let mut d = Def::strukt(
                    &["p", "s"],
                    "S",
                    &["T", "U"],
                    named(vec![("a", Ty::Param(0))]),
                );
                d.params[1].skipped = true;
                d
            }
        };
        defs.push(s);
        let n = Ty::Named(D_NN, vec![]);
        let s_ty = self.s_ty(U8, n.clone());
        let host = defs.len();
        let use_ = self.use_.unwrap_or(Use::Root);
        let root = match use_ {
            Use::Root => s_ty,
            Use::InGenericParent => {
                // Par<T> { f: S<T, N>, t: T } instantiated as Par<u16>
                defs.push(Def::strukt(
                    &["p", "h"],
                    "Par",
                    &["T"],
                    named(vec![
                        ("f", self.s_ty(Ty::Param(0), n.clone())),
                        ("t", Ty::Param(0)),
                    ]),
                ));
                Ty::Named(host, vec![U16])
            }
            Use::InGenericParent2 => {
                defs.push(Def::strukt(
                    &["p", "h"],
                    "Par2",
                    &["A", "T"],
                    named(vec![
                        ("a", Ty::Param(0)),
                        ("f", self.s_ty(Ty::Param(1), n.clone())),
                        ("t", Ty::Param(1)),
                    ]),
                ));
                Ty::Named(host, vec![U16, U8])
            }
            _ => {
                let f = match use_ {
                    Use::Boxed => Ty::Box(b(s_ty)),
                    Use::InVec => Ty::Vec(b(s_ty)),
                    Use::InOption => Ty::Option(b(s_ty)),
                    Use::InArray => Ty::Array(b(s_ty), 2),
                    Use::InTuple => Ty::Tuple(vec![U8, s_ty]),
                    Use::ArgOfOther => Ty::Named(D_HH, vec![s_ty]),
                    Use::ArgOfItself => self.s_ty(s_ty.clone(), n.clone()),
                    Use::MapValue => Ty::BTreeMap(b(U8), b(s_ty)),
                    Use::InCow => Ty::Cow(b(s_ty)),
                    Use::InVecCow => Ty::Vec(b(Ty::Cow(b(s_ty)))),
                    Use::TupleAndArrayArgs => self.s_ty(Ty::Tuple(vec![U8, U16]), Ty::Array(b(U8), 2)),
                    Use::UnitArg => self.s_ty(Ty::Tuple(vec![]), Ty::Vec(b(n.clone()))),
                    _ => s_ty,
                };
                let fields = match use_ {
                    Use::UnnamedField => Fields::Unnamed(vec![Field::new(U16), Field::new(f)]),
                    _ => Fields::Named(vec![
                        ("x".into(), Field::new(U16)),
                        ("f".into(), Field::new(f)),
                    ]),
                };
                if use_ == Use::VariantField {
                    defs.push(Def::enm(
                        &["p", "h"],
                        "Host",
                        &[],
                        vec![variant("A", Fields::Unit), variant("B", fields)],
                    ));
                } else {
                    defs.push(Def::strukt(&["p", "h"], "Host", &[], fields));
                }
                Ty::Named(host, vec![])
            }
        };
        Program {
            defs,
            roots: vec![root],
        }
    }

    pub fn source_path(&self) -> &'static str {
        if self.sform == SForm::BTreeMap {
            "BTreeMap"
        } else {
            "p::s::S"
        }
    }

    pub fn spec(&self) -> SettingsSpec {
        let mut s = SettingsSpec::faithful();
        s.root = "root".into();
        if let Some(r) = self.rule {
            let (g, t) = rule_forms()[r];
            s.substitutes
                .push((format!("{}{}", self.source_path(), g), t.to_string()));
        }
        if self.second {
            s.substitutes.push(("p::a::N".into(), "::t::NN<B>".into()));
        }
        s
    }
}

/// Reference substitution, written from the statement: the emitted path for an occurrence of the
/// substituted type with the given resolved arguments.
pub fn reference_substitution(source_generics: &str, target: &str, args: &[String]) -> String {
    let target_path = parse_path(target);
    let target_has_generics = matches!(
        target_path.segments.last().map(|s| &s.arguments),
        Some(syn::PathArguments::AngleBracketed(_))
    );
    let src_names: Vec<String> = source_generics
        .trim()
        .trim_start_matches('<')
        .trim_end_matches('>')
        .split(',')
        .map(|s| s.trim().to_string())
        .filter(|s| !s.is_empty())
        .collect();
    if src_names.is_empty() && !target_has_generics {
        // no generics declared: the original resolved arguments in order
        return if args.is_empty() {
            squash(target)
        } else {
            format!("{}<{}>", squash(target), args.join(","))
        };
    }
    // otherwise: the substitute's declared arguments with each source parameter name replaced,
    // at any depth, by the corresponding resolved argument; every other token unchanged
    fn rewrite(p: &syn::Path, names: &[String], args: &[String]) -> String {
        let mut out = String::new();
        if p.leading_colon.is_some() {
            out.push_str("::");
        }
        let segs: Vec<String> = p
            .segments
            .iter()
            .map(|seg| {
                let mut s = seg.ident.to_string();
                if let syn::PathArguments::AngleBracketed(a) = &seg.arguments {
                    let inner: Vec<String> = a
                        .args
                        .iter()
                        .map(|g| match g {
                            syn::GenericArgument::Type(syn::Type::Path(tp))
                                if tp.qself.is_none() =>
                            {
                                let single = tp.path.leading_colon.is_none()
                                    && tp.path.segments.len() == 1
                                    && tp.path.segments[0].arguments.is_empty();
                                if single {
                                    let name = tp.path.segments[0].ident.to_string();
                                    if let Some(i) = names.iter().position(|n| *n == name) {
                                        if let Some(a) = args.get(i) {
                                            return a.clone();
                                        }
                                    }
                                }
                                rewrite(&tp.path, names, args)
                            }
                            other => squash(&quote::quote!(#other).to_string()),
                        })
                        .collect();
                    s.push_str(&format!("<{}>", inner.join(",")));
                }
                s
            })
            .collect();
        out.push_str(&segs.join("::"));
        out
    }
    rewrite(&target_path, &src_names, args)
}

fn ty_str(t: &syn::Type) -> String {
    crate::settings::canon_type(t)
}

pub fn check_state(st: &SubstState, ctx: &mut Ctx) {
    let (Some(_), Some(rule)) = (st.use_, st.rule) else {
        return; // incomplete construction: nothing to observe yet
    };
    let prog = st.program();
    let el = elaborate(&prog);
    let reg = &el.registry;
    let spec = st.spec();
    let settings = spec.build();
    let (src_generics, target) = rule_forms()[rule];
    let source_path: Vec<String> = st
        .source_path()
        .split("::")
        .map(|s| s.to_string())
        .collect();
    let replay = || json!({"check": "C07", "state": serde_json::to_value(st).unwrap(), "source": prog.to_source(), "rule": format!("{}{} -> {}", st.source_path(), src_generics, target)});
    let size = 10;
    ctx.exec(1);
    let tokens = match generate(reg, &settings) {
        GenOutcome::Ok { tokens } => tokens,
        other => {
            ctx.violation(
                "C07/generation-fails",
                format!(
                    "generation with a substitution rule fails: {}",
                    truncate(&format!("{other:?}"), 120)
                ),
                replay(),
                size,
            );
            return;
        }
    };
    let em = match parse_emitted(&tokens) {
        Ok(e) => e,
        Err(e) => {
            ctx.violation("C07/unparsable", e, replay(), size);
            return;
        }
    };
    ctx.outcome(&squash(&tokens));
    // (1) the substituted path is not defined
    let mut full = vec![spec.root.clone()];
    full.extend(source_path.iter().cloned());
    if source_path.len() > 1 && (em.items.contains_key(&full) || em.modules.contains_key(&full)) {
        ctx.violation(
            "C07/still-defined",
            format!("{} is still defined in the output", full.join("::")),
            replay(),
            size,
        );
    }
    // (2) and is not referenced: not in any field type ...
    let needle = if source_path.len() > 1 {
        squash(&full.join("::"))
    } else {
        format!("{}::collections::BTreeMap", squash(&spec.alloc_prefix()))
    };
    let mentions = |s: &str| -> bool {
        // followed by something that is not an identifier character or `::`-continuation of a longer path
        let mut from = 0;
        while let Some(i) = s[from..].find(&needle) {
            let end = from + i + needle.len();
            let next = s[end..].chars().next();
            if !matches!(next, Some(c) if c.is_alphanumeric() || c == '_') {
                return true;
            }
            from = end;
        }
        false
    };
    for (p, item) in &em.items {
        let fields: Vec<&FieldAst> = match &item.kind {
            ItemKind::Struct(f) => f.list().iter().collect(),
            ItemKind::Enum(vs) => vs.iter().flat_map(|v| v.fields.list().iter()).collect(),
        };
        for f in fields {
            if mentions(&ty_str(&f.ty)) {
                ctx.violation(
                    "C07/still-referenced/field",
                    format!(
                        "field of {} still mentions the substituted path: `{}`",
                        p.join("::"),
                        ty_str(&f.ty)
                    ),
                    replay(),
                    size,
                );
            }
        }
    }
    // (3) every resolved type path equals the reference
    let sub = |path: &[String], args: &[String]| -> Option<String> {
        if path == source_path.as_slice() {
            Some(reference_substitution(src_generics, target, args))
        } else if st.second && path == ["p".to_string(), "a".to_string(), "N".to_string()] {
            Some(reference_substitution("", "::t::NN<B>", args))
        } else {
            // the bit-order markers of the faithful profile
            None
        }
    };
    let ex = Expect {
        prog: &prog,
        settings: &spec,
        subst: Some(&sub),
    };
    for id in 0..reg.types.len() as u32 {
        ctx.exec(1);
        let origin = &el.origin[id as usize];
        if matches!(origin, Ty::Order(_)) {
            continue;
        }
        let want = crate::settings::canon_type_str(&ex.nested(origin, None));
        match resolve_path(reg, &settings, id) {
            Ok(Ok(p)) => {
                let got = crate::settings::canon_type_str(&p);
                if mentions(&got) {
                    ctx.violation(
                        "C07/still-referenced/resolve",
                        format!("resolve_type_path({id}) = `{got}` mentions the substituted path"),
                        replay(),
                        size,
                    );
                }
                if got != want {
                    ctx.violation(
                        format!("C07/wrong-substitution/{}", if matches!(st.use_, Some(Use::InGenericParent) | Some(Use::InGenericParent2)) { "in-generic-parent" } else { "resolve" }),
                        format!("resolve_type_path({id}) = `{got}`, reference substitution gives `{want}`"),
                        replay(),
                        size,
                    );
                }
            }
            other => ctx.violation(
                "C07/resolve-fails",
                format!(
                    "resolve_type_path({id}) = {}",
                    truncate(&format!("{other:?}"), 100)
                ),
                replay(),
                size,
            ),
        }
    }
    // ... and the field types of the emitted items equal the reference (this is where a parent's
    // generic parameter is the argument)
    for (di, def) in prog.defs.iter().enumerate() {
        if di == D_S && st.sform != SForm::BTreeMap {
            continue;
        }
        if di == D_NN && st.second {
            continue;
        }
        let mut p = vec![spec.root.clone()];
        p.extend(def.path());
        let Some(item) = em.items.get(&p) else {
            continue;
        };
        let src_fields: Vec<&Field> = def
            .all_fields()
            .into_iter()
            .filter(|f| !matches!(f.ty, Ty::Phantom(_)))
            .collect();
        let got_fields: Vec<&FieldAst> = match &item.kind {
            ItemKind::Struct(f) => f.list().iter().collect(),
            ItemKind::Enum(vs) => vs.iter().flat_map(|v| v.fields.list().iter()).collect(),
        };
        for (sf, gf) in src_fields.iter().zip(got_fields.iter()) {
            let (want, _) = ex.field(sf, None);
            let got = ty_str(&gf.ty);
            if got != crate::settings::canon_type_str(&want) {
                ctx.violation(
                    format!(
                        "C07/wrong-substitution/{}",
                        if matches!(
                            st.use_,
                            Some(Use::InGenericParent) | Some(Use::InGenericParent2)
                        ) {
                            "in-generic-parent"
                        } else {
                            "field"
                        }
                    ),
                    format!(
                        "field of {}: emitted `{got}`, reference substitution gives `{}`",
                        def.name,
                        crate::settings::canon_type_str(&want)
                    ),
                    replay(),
                    size,
                );
            }
        }
    }
}

pub struct DSubst;
impl Driver for DSubst {
    type State = SubstState;
    fn name(&self) -> String {
        format!(
            "D-subst({} shapes of the substituted type x {} use sites x {} rule forms)",
            SFORMS.len(),
            USES.len(),
            rule_forms().len()
        )
    }
    fn initial(&self) -> Vec<SubstState> {
        SFORMS
            .iter()
            .map(|f| SubstState {
                sform: *f,
                use_: None,
                rule: None,
                second: false,
            })
            .collect()
    }
    fn successors(&self, s: &SubstState, _depth: u32) -> Vec<SubstState> {
        if s.use_.is_none() {
            USES.iter()
                .map(|u| SubstState {
                    use_: Some(*u),
                    ..s.clone()
                })
                .collect()
        } else if s.rule.is_none() {
            (0..rule_forms().len())
                .map(|r| SubstState {
                    rule: Some(r),
                    ..s.clone()
                })
                .collect()
        } else if !s.second {
            vec![SubstState {
                second: true,
                ..s.clone()
            }]
        } else {
            vec![]
        }
    }
    fn key(&self, s: &SubstState) -> Option<u128> {
        Some(hash128(s))
    }
    fn describe(&self, s: &SubstState) -> serde_json::Value {
        json!({"state": format!("{s:?}"), "program": s.program().to_source(), "rule": s.rule.map(|r| format!("{}{} -> {}", s.source_path(), rule_forms()[r].0, rule_forms()[r].1))})
    }
}

pub fn worker_check(state: &serde_json::Value, ctx: &mut Ctx) {
    let s: SubstState = serde_json::from_value(state.clone()).expect("state");
    check_state(&s, ctx);
}

pub fn run(tier: &str, seed: u64) -> i32 {
    let mut report = Report::new("C07", tier, seed, "model_checking");
    let (all, transitions, complete) = enumerate(&DSubst, 3, 1_000_000);
    let states: Vec<String> = all
        .iter()
        .map(|(_, s)| serde_json::to_string(s).unwrap())
        .collect();
    // worker subprocesses: a substitution that recurses without end kills the worker, not the check
    let mut st = isolated_sweep(
        &format!("{} (worker subprocesses)", DSubst.name()),
        "C07",
        &states,
        64,
        Duration::from_secs(if tier == "thorough" { 600 } else { 150 }),
        Duration::from_secs(10),
        "C07",
    );
    st.transitions = transitions.max(1);
    st.exhaustive &= complete;
    st.max_depth = 3;
    report.add(st);
    report.assumptions = vec![
        "the reference substitution is a token-tree walk written from the statement (pass-through iff neither side declares generics; otherwise bare source-parameter identifiers in generic-argument position are replaced at any depth by the resolved argument of that index, if present)".into(),
        "expected type paths come from the independent printer families::Expect".into(),
    ];
    report.finish()
}

pub fn replay(v: &serde_json::Value) -> Result<Vec<Violation>, String> {
    let s: SubstState = serde_json::from_value(v["state"].clone()).map_err(|e| e.to_string())?;
    let mut ctx = Ctx::default();
    check_state(&s, &mut ctx);
    Ok(ctx.violations)
}
