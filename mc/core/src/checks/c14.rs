//! C14 - Rust value examples conform to the generated type definitions.
//! Lock-step reader of the example expression against the item the generator emits for the id.

use crate::checks::c01::truncate;
use crate::checks::c12::js;
use crate::drivers::*;
use crate::engine::*;
use crate::interp::*;
use crate::run::*;
use crate::settings::{squash, SettingsSpec};
use crate::spm::*;
use scale_info::{form::PortableForm, Field, PortableRegistry, TypeDef, TypeDefPrimitive};
use scale_typegen_description::rust_value_from_seed;
use serde_json::{json, Value as Json};
use std::collections::BTreeSet;
use std::time::Duration;

struct Rd<'a> {
    reg: &'a PortableRegistry,
    em: &'a Emitted,
    settings: &'a scale_typegen::TypeGeneratorSettings,
    spec: &'a SettingsSpec,
}

type R = Result<(), (String, String)>; // (clause, detail)

fn err(clause: &str, detail: String) -> R {
    Err((clause.to_string(), detail))
}

fn toks(e: &impl quote::ToTokens) -> String {
    squash(&e.to_token_stream().to_string())
}

fn omit_generics(path_tokens: &str) -> String {
    squash(path_tokens)
        .split('<')
        .next()
        .unwrap_or("")
        .to_string()
}

impl<'a> Rd<'a> {
    fn generated_item(&self, id: u32) -> Option<&'a Item> {
        let ty = self.reg.resolve(id)?;
        if ty.path.segments.len() < 2 {
            return None;
        }
        let mut full = vec![self.spec.root.clone()];
        full.extend(ty.path.segments.iter().cloned());
        self.em.items.get(&full)
    }

    fn expected_path(&self, id: u32) -> Result<String, (String, String)> {
        match resolve_path(self.reg, self.settings, id) {
            Ok(Ok(p)) => {
                let p = omit_generics(&p);
                // "the generated path": where the item really is in the emitted module, not only what the
                // generator calls it
                if let Some(item) = self.generated_item(id) {
                    let at = item.path.join("::");
                    if at != p {
                        return Err((
                            "literal-path".into(),
                            format!("the generator names type {id} `{p}`, the item is emitted at `{at}`"),
                        ));
                    }
                }
                Ok(p)
            }
            other => Err((
                "path".into(),
                format!("resolve_type_path({id}) = {other:?}"),
            )),
        }
    }

    fn is_marker(e: &syn::Expr) -> bool {
        toks(e) == "::core::marker::PhantomData"
    }

    /// the value of a field whose registry type is `id`
    fn field_value(&self, id: u32, e: &syn::Expr) -> R {
        // `Compact(..)` around a compact-typed field is accepted, never required
        if let Some(TypeDef::Compact(c)) = self.reg.resolve(id).map(|t| &t.type_def) {
            if let syn::Expr::Call(call) = e {
                if toks(&call.func) == "Compact" && call.args.len() == 1 {
                    return self.value(c.type_param.id, &call.args[0]);
                }
            }
        }
        self.value(id, e)
    }

    /// field list of a struct / variant literal: `fields` from the registry, `item_fields` from the
    /// generated item (including the marker for unused parameters), `e` the literal
    fn fields(
        &self,
        what: &str,
        path: &str,
        fields: &[Field<PortableForm>],
        item_fields: Option<&FieldsAst>,
        e: &syn::Expr,
    ) -> R {
        // what the generated item looks like (names / arity incl. marker)
        let (gen_names, gen_arity): (Option<Vec<Option<String>>>, Option<usize>) = match item_fields
        {
            Some(f) => (
                Some(f.list().iter().map(|x| x.name.clone()).collect()),
                Some(f.list().len()),
            ),
            None => (None, None),
        };
        match e {
            syn::Expr::Struct(s) => {
                if toks(&s.path) != path {
                    return err(
                        "literal-path",
                        format!(
                            "{what}: literal path `{}`, generated path `{path}`",
                            toks(&s.path)
                        ),
                    );
                }
                let names: Vec<String> = s.fields.iter().map(|f| toks(&f.member)).collect();
                if let Some(g) = &gen_names {
                    let g: Vec<String> = g.iter().map(|n| n.clone().unwrap_or_default()).collect();
                    if names != g {
                        return err("field-names", format!("{what}: literal has fields {names:?}, the generated item has {g:?}"));
                    }
                } else {
                    let r: Vec<String> = fields
                        .iter()
                        .map(|f| f.name.clone().unwrap_or_default())
                        .collect();
                    if names != r {
                        return err(
                            "field-names",
                            format!("{what}: literal has fields {names:?}, the registry has {r:?}"),
                        );
                    }
                }
                let mut it = s.fields.iter();
                for f in fields {
                    let Some(fv) = it.next() else {
                        return err("field-count", format!("{what}: too few fields"));
                    };
                    self.field_value(f.ty.id, &fv.expr)?;
                }
                for extra in it {
                    if !Self::is_marker(&extra.expr) {
                        return err(
                            "marker",
                            format!(
                                "{what}: extra field `{}` is not a PhantomData marker",
                                toks(extra)
                            ),
                        );
                    }
                }
                Ok(())
            }
            syn::Expr::Call(c) => {
                if toks(&c.func) != path {
                    return err(
                        "literal-path",
                        format!(
                            "{what}: literal path `{}`, generated path `{path}`",
                            toks(&c.func)
                        ),
                    );
                }
                if let Some(n) = gen_arity {
                    if c.args.len() != n {
                        return err(
                            "arity",
                            format!(
                                "{what}: literal has {} fields, the generated item has {n}",
                                c.args.len()
                            ),
                        );
                    }
                    if matches!(item_fields, Some(FieldsAst::Named(_))) {
                        return err(
                            "literal-form",
                            format!("{what}: tuple literal for an item with named fields"),
                        );
                    }
                }
                // (prelude composites are not generated items: only their components are read; the
                // loops below still reject too few components and extra ones that are not markers)
                let mut it = c.args.iter();
                for f in fields {
                    let Some(a) = it.next() else {
                        return err("arity", format!("{what}: too few fields"));
                    };
                    self.field_value(f.ty.id, a)?;
                }
                for extra in it {
                    if !Self::is_marker(extra) {
                        return err(
                            "marker",
                            format!(
                                "{what}: extra field `{}` is not a PhantomData marker",
                                toks(extra)
                            ),
                        );
                    }
                }
                Ok(())
            }
            syn::Expr::Path(p) => {
                if toks(p) != path {
                    return err(
                        "literal-path",
                        format!(
                            "{what}: literal path `{}`, generated path `{path}`",
                            toks(p)
                        ),
                    );
                }
                if !fields.is_empty() {
                    return err(
                        "arity",
                        format!("{what}: bare path for a type with {} fields", fields.len()),
                    );
                }
                if let Some(n) = gen_arity {
                    if n != 0 {
                        return err("arity", format!("{what}: bare path, but the generated item has {n} field(s) (marker for unused parameters)"));
                    }
                }
                Ok(())
            }
            other => err(
                "literal-form",
                format!(
                    "{what}: expected a struct / tuple-struct / unit literal, found `{}`",
                    truncate(&toks(other), 80)
                ),
            ),
        }
    }

    fn value(&self, id: u32, e: &syn::Expr) -> R {
        let Some(ty) = self.reg.resolve(id) else {
            return err("registry", format!("id {id} missing"));
        };
        // parentheses / groups around a value are harmless, except for tuples (handled below)
        match &ty.type_def {
            TypeDef::Composite(c) => {
                let path = self.expected_path(id)?;
                let item = self.generated_item(id);
                let item_fields = match item.map(|i| &i.kind) {
                    Some(ItemKind::Struct(f)) => Some(f),
                    Some(ItemKind::Enum(_)) => {
                        return err(
                            "kind",
                            format!("registry composite {id} generated as an enum"),
                        )
                    }
                    None => None,
                };
                self.fields(
                    &format!("struct {}", ty.path.segments.join("::")),
                    &path,
                    &c.fields,
                    item_fields,
                    e,
                )
            }
            TypeDef::Variant(v) => {
                let path = self.expected_path(id)?;
                // which variant?
                let lit_path = match e {
                    syn::Expr::Struct(s) => toks(&s.path),
                    syn::Expr::Call(c) => toks(&c.func),
                    syn::Expr::Path(p) => toks(p),
                    other => {
                        return err(
                            "literal-form",
                            format!("enum value is `{}`", truncate(&toks(other), 80)),
                        )
                    }
                };
                let Some(var_name) = lit_path.strip_prefix(&format!("{path}::")) else {
                    return err(
                        "literal-path",
                        format!("variant literal `{lit_path}` does not use the generated enum path `{path}`"),
                    );
                };
                let Some(var) = v.variants.iter().find(|x| x.name == var_name) else {
                    return err(
                        "variant",
                        format!(
                            "`{var_name}` is not a variant of {}",
                            ty.path.segments.join("::")
                        ),
                    );
                };
                let item_fields = match self.generated_item(id).map(|i| &i.kind) {
                    Some(ItemKind::Enum(vs)) => match vs.iter().find(|x| x.name == var_name) {
                        Some(x) => Some(&x.fields),
                        None => {
                            return err(
                                "variant",
                                format!("variant `{var_name}` not in the generated enum"),
                            )
                        }
                    },
                    Some(ItemKind::Struct(_)) => {
                        return err("kind", format!("registry enum {id} generated as a struct"))
                    }
                    None => None,
                };
                self.fields(
                    &format!("variant {}::{var_name}", ty.path.segments.join("::")),
                    &lit_path,
                    &var.fields,
                    item_fields,
                    e,
                )
            }
            TypeDef::Sequence(s) => {
                let syn::Expr::Macro(m) = e else {
                    return err(
                        "vec",
                        format!(
                            "sequence value is `{}`, expected vec![..]",
                            truncate(&toks(e), 80)
                        ),
                    );
                };
                if !m.mac.path.is_ident("vec") {
                    return err(
                        "vec",
                        format!("sequence value uses macro `{}`", toks(&m.mac.path)),
                    );
                }
                let parser =
                    syn::punctuated::Punctuated::<syn::Expr, syn::Token![,]>::parse_terminated;
                let elems =
                    syn::parse::Parser::parse2(parser, m.mac.tokens.clone()).map_err(|e| {
                        (
                            "vec".to_string(),
                            format!("vec! arguments do not parse: {e}"),
                        )
                    })?;
                for x in elems.iter() {
                    self.value(s.type_param.id, x)?;
                }
                Ok(())
            }
            TypeDef::Array(a) => match e {
                syn::Expr::Repeat(r) => {
                    let n = toks(&r.len);
                    let n = n.trim_end_matches("usize");
                    if n.parse::<u32>().ok() != Some(a.len) {
                        return err(
                            "array-arity",
                            format!("array of length {} written as [x; {}]", a.len, toks(&r.len)),
                        );
                    }
                    self.value(a.type_param.id, &r.expr)
                }
                syn::Expr::Array(arr) => {
                    if arr.elems.len() != a.len as usize {
                        return err(
                            "array-arity",
                            format!(
                                "array of length {} written with {} elements",
                                a.len,
                                arr.elems.len()
                            ),
                        );
                    }
                    for x in arr.elems.iter() {
                        self.value(a.type_param.id, x)?;
                    }
                    Ok(())
                }
                other => err(
                    "array",
                    format!("array value is `{}`", truncate(&toks(other), 80)),
                ),
            },
            TypeDef::Tuple(t) => match e {
                syn::Expr::Tuple(tu) => {
                    if tu.elems.len() != t.fields.len() {
                        return err(
                            "tuple-arity",
                            format!(
                                "tuple of {} written with {} elements",
                                t.fields.len(),
                                tu.elems.len()
                            ),
                        );
                    }
                    for (f, x) in t.fields.iter().zip(tu.elems.iter()) {
                        self.value(f.id, x)?;
                    }
                    Ok(())
                }
                other => err(
                    "tuple-arity",
                    format!(
                        "tuple of {} written as `{}` (not a tuple expression)",
                        t.fields.len(),
                        truncate(&toks(other), 80)
                    ),
                ),
            },
            TypeDef::Primitive(p) => {
                let want_suffix = |e: &syn::Expr, suffix: &str| -> R {
                    let lit = match e {
                        syn::Expr::Lit(l) => &l.lit,
                        syn::Expr::Unary(u) if matches!(u.op, syn::UnOp::Neg(_)) => {
                            match &*u.expr {
                                syn::Expr::Lit(l) => &l.lit,
                                _ => {
                                    return err(
                                        "literal",
                                        format!("`{}` is not a literal", toks(e)),
                                    )
                                }
                            }
                        }
                        _ => {
                            return err(
                                "literal",
                                format!(
                                    "`{}` is not a literal of type {suffix}",
                                    truncate(&toks(e), 60)
                                ),
                            )
                        }
                    };
                    match lit {
                        syn::Lit::Int(i) if i.suffix() == suffix => Ok(()),
                        syn::Lit::Int(i) => err(
                            "literal-suffix",
                            format!("integer literal `{}` for a {suffix}", toks(i)),
                        ),
                        other => err(
                            "literal",
                            format!("literal `{}` for a {suffix}", toks(other)),
                        ),
                    }
                };
                match p {
                    TypeDefPrimitive::Bool => match e {
                        syn::Expr::Lit(l) if matches!(l.lit, syn::Lit::Bool(_)) => Ok(()),
                        _ => err("literal", format!("`{}` for a bool", toks(e))),
                    },
                    TypeDefPrimitive::Char => match e {
                        syn::Expr::Lit(l) if matches!(l.lit, syn::Lit::Char(_)) => Ok(()),
                        _ => err("literal", format!("`{}` for a char", toks(e))),
                    },
                    TypeDefPrimitive::Str => match e {
                        syn::Expr::MethodCall(m)
                            if m.method == "into"
                                && matches!(&*m.receiver, syn::Expr::Lit(l) if matches!(l.lit, syn::Lit::Str(_))) =>
                        {
                            Ok(())
                        }
                        syn::Expr::Lit(l) if matches!(l.lit, syn::Lit::Str(_)) => Ok(()),
                        _ => err("literal", format!("`{}` for a String", toks(e))),
                    },
                    TypeDefPrimitive::U8 => want_suffix(e, "u8"),
                    TypeDefPrimitive::U16 => want_suffix(e, "u16"),
                    TypeDefPrimitive::U32 => want_suffix(e, "u32"),
                    TypeDefPrimitive::U64 => want_suffix(e, "u64"),
                    TypeDefPrimitive::U128 => want_suffix(e, "u128"),
                    TypeDefPrimitive::I8 => want_suffix(e, "i8"),
                    TypeDefPrimitive::I16 => want_suffix(e, "i16"),
                    TypeDefPrimitive::I32 => want_suffix(e, "i32"),
                    TypeDefPrimitive::I64 => want_suffix(e, "i64"),
                    TypeDefPrimitive::I128 => want_suffix(e, "i128"),
                    TypeDefPrimitive::U256 | TypeDefPrimitive::I256 => Ok(()),
                }
            }
            TypeDef::Compact(c) => {
                if let syn::Expr::Call(call) = e {
                    if toks(&call.func) == "Compact" && call.args.len() == 1 {
                        return self.value(c.type_param.id, &call.args[0]);
                    }
                }
                self.value(c.type_param.id, e)
            }
            TypeDef::BitSequence(_) => Ok(()),
        }
    }
}

fn reaches_excluded(reg: &PortableRegistry, id: u32) -> bool {
    let mut seen = BTreeSet::new();
    let mut stack = vec![id];
    while let Some(i) = stack.pop() {
        if !seen.insert(i) {
            continue;
        }
        let Some(t) = reg.resolve(i) else { continue };
        match &t.type_def {
            TypeDef::Composite(c) => stack.extend(c.fields.iter().map(|f| f.ty.id)),
            TypeDef::Variant(v) => stack.extend(
                v.variants
                    .iter()
                    .flat_map(|v| v.fields.iter().map(|f| f.ty.id)),
            ),
            TypeDef::Sequence(s) => stack.push(s.type_param.id),
            TypeDef::Array(a) => stack.push(a.type_param.id),
            TypeDef::Tuple(t) => stack.extend(t.fields.iter().map(|f| f.id)),
            TypeDef::Compact(c) => stack.push(c.type_param.id),
            TypeDef::BitSequence(_) => return true,
            TypeDef::Primitive(p) => {
                if matches!(p, TypeDefPrimitive::U256 | TypeDefPrimitive::I256) {
                    return true;
                }
            }
        }
    }
    false
}

pub fn check_registry(
    reg: &PortableRegistry,
    ids: &[u32],
    seeds: u64,
    spec: &SettingsSpec,
    replay: &dyn Fn(u32, u64) -> Json,
    ctx: &mut Ctx,
) {
    let settings = spec.build();
    let size = reg.types.len();
    // the generated module for this registry (de-duplicated paths are the caller's business)
    let em = match generate(reg, &settings) {
        GenOutcome::Ok { tokens } => match parse_emitted(&tokens) {
            Ok(e) => e,
            Err(_) => {
                ctx.note("module does not parse (C02)", 1);
                return;
            }
        },
        _ => {
            ctx.note("generation does not succeed for this registry (C03/C10)", 1);
            return;
        }
    };
    let rd = Rd {
        reg,
        em: &em,
        settings: &settings,
        spec,
    };
    for &id in ids {
        if reaches_excluded(reg, id) {
            ctx.exclude(
                "type contains a bit sequence or a 256-bit integer (outside the quantifier)",
            );
            continue;
        }
        for seed in 0..seeds {
            ctx.exec(1);
            let a = guarded(|| {
                rust_value_from_seed(id, reg, &settings, seed, None, None)
                    .map(|t| t.to_string())
                    .map_err(|e| format!("{e}"))
            });
            let b = guarded(|| {
                rust_value_from_seed(id, reg, &settings, seed, None, None)
                    .map(|t| t.to_string())
                    .map_err(|e| format!("{e}"))
            });
            let code = match a {
                Err(p) => {
                    ctx.violation(
                        format!("C14/panic/{}", truncate(&p, 40)),
                        format!("rust_value_from_seed({id}, seed {seed}) panics: {p}"),
                        replay(id, seed),
                        size,
                    );
                    continue;
                }
                Ok(Err(_)) => {
                    ctx.outcome(&"err");
                    if !matches!(b, Ok(Err(_))) {
                        ctx.violation(
                            "C14/nondeterministic",
                            format!("id {id} seed {seed}: Err once, not the second time"),
                            replay(id, seed),
                            size,
                        );
                    }
                    continue;
                }
                Ok(Ok(c)) => c,
            };
            if !matches!(&b, Ok(Ok(c2)) if *c2 == code) {
                ctx.violation(
                    "C14/nondeterministic",
                    format!("id {id} seed {seed}: two calls with the same seed differ"),
                    replay(id, seed),
                    size,
                );
            }
            let expr: syn::Expr = match syn::parse_str(&code) {
                Ok(e) => e,
                Err(e) => {
                    ctx.violation(
                        "C14/not-an-expression",
                        format!("example of id {id} (seed {seed}) `{}` does not parse as a Rust expression: {e}", truncate(&code, 200)),
                        replay(id, seed),
                        size,
                    );
                    continue;
                }
            };
            ctx.outcome(&squash(&code));
            if let Err((clause, detail)) = rd.value(id, &expr) {
                ctx.violation(
                    format!("C14/{clause}"),
                    format!(
                        "example of id {id} (seed {seed}) `{}`: {detail}",
                        truncate(&squash(&code), 240)
                    ),
                    replay(id, seed),
                    size,
                );
            }
        }
    }
}

fn specs() -> Vec<SettingsSpec> {
    let a = SettingsSpec::faithful();
    let mut b = SettingsSpec::faithful();
    b.root = "r".into();
    b.alloc = Some("::alloc".into());
    // path settings with substitutes: the literal of a substituted struct uses the substitute's path
    let mut c = SettingsSpec::faithful();
    c.substitutes.push(("p::a::N".into(), "::ext::NN".into()));
    c.substitutes.push(("p::a::H<T>".into(), "::ext::HH<T>".into()));
    // the types module is called like the FIRST segment of every type's own path (named after the crate the types
    // come from): the literal's path still starts with the module, then the whole path
    let mut d = SettingsSpec::faithful();
    d.root = "p".into();
    vec![a, b, c, d]
}

pub fn worker_check(state: &Json, ctx: &mut Ctx) {
    let seeds = state["seeds"].as_u64().unwrap_or(8);
    if let Some(range) = state.get("polkadot") {
        let mut reg = RegSrc::Polkadot { retain: None }.registry();
        let _ = scale_typegen::utils::ensure_unique_type_paths(&mut reg);
        let lo = range[0].as_u64().unwrap_or(0) as u32;
        let hi = range[1].as_u64().unwrap_or(0) as u32;
        let ids: Vec<u32> = (lo..hi).collect();
        let mut sp = SettingsSpec::faithful();
        sp.root = "runtime_types".into();
        check_registry(
            &reg,
            &ids,
            seeds,
            &sp,
            &|id, seed| json!({"check": "C14", "state": {"polkadot": [id, id + 1], "seeds": seed + 1}}),
            ctx,
        );
    } else {
        let prog: Program = serde_json::from_value(state["prog"].clone()).expect("program");
        let reg = with_qualified_compact(state["qualified_compact"].as_bool().unwrap_or(false), || elaborate(&prog).registry);
        let ids: Vec<u32> = (0..reg.types.len() as u32).collect();
        let src = prog.to_source();
        for (i, sp) in specs().iter().enumerate() {
            if i > 0 && !state["all_settings"].as_bool().unwrap_or(false) {
                break;
            }
            check_registry(
                &reg,
                &ids,
                seeds,
                sp,
                &|id, seed| json!({"check": "C14", "state": {"prog": serde_json::to_value(&prog).unwrap(), "seeds": seed + 1, "all_settings": i > 0, "qualified_compact": state["qualified_compact"].as_bool().unwrap_or(false)}, "id": id, "source": src}),
                ctx,
            );
        }
        let settings = specs()[0].build();
        crate::checks::c12::same_address_clause(
            "C14",
            state,
            &reg,
            seeds,
            &|id, r, seed| {
                guarded(|| {
                    rust_value_from_seed(id, r, &settings, seed, None, None)
                        .map(|t| t.to_string())
                        .map_err(|e| format!("{e}"))
                })
            },
            ctx,
        );
    }
}

pub fn run(tier: &str, seed: u64) -> i32 {
    let mut report = Report::new("C14", tier, seed, "model_checking");
    let thorough = tier == "thorough";
    let seeds = if thorough { 32 } else { 8 };
    let (mut states, info) = crate::checks::c12::description_states(thorough, seeds);
    {
        use crate::families::*;
        let d = DGeneric {
            max_fields: 2,
            max_insts: 1,
            include_cf3: false,
            body_forms: ALL_BODY_FORMS.to_vec(),
            param_forms: ALL_PARAM_FORMS.to_vec(),
        };
        let (all, _, _) = enumerate(&d, if thorough { 2 } else { 1 }, 2_000_000);
        for (_, s) in all {
            if crate::checks::c05::wf5_ok(&s) {
                states.push(js(json!({"prog": serde_json::to_value(s.program()).unwrap(), "seeds": seeds, "all_settings": true})));
            }
        }
    }
    // coincident instantiations (C14 is not restricted to coincidence-free registries): the unused parameter's
    // argument has the same type id as a concretely written field
    {
        use crate::families::*;
        for form in [BodyForm::Named, BodyForm::Unnamed] {
            for arg in [U8, U16, Ty::Named(G_N, vec![])] {
                for extra in [None, Some(Ty::Prim(Prim::Bool))] {
                    let mut fields = vec![crate::spm::Field::new(arg.clone())];
                    if let Some(e) = &extra {
                        fields.push(crate::spm::Field::new(e.clone()));
                    }
                    fields.push(crate::spm::Field::new(Ty::Phantom(b(Ty::Param(0)))));
                    let gs = GenState { form, params: ParamForm::One, fields, insts: vec![vec![arg.clone()]] };
                    states.push(js(json!({"prog": serde_json::to_value(gs.program()).unwrap(), "seeds": seeds, "all_settings": true})));
                }
            }
        }
    }
    // the spelling variant `codec::Compact<..>` of every D-arms type that mentions a Compact
    {
        fn mentions_compact(t: &Ty) -> bool {
            match t {
                Ty::Compact(_) => true,
                Ty::Named(_, a) | Ty::Tuple(a) => a.iter().any(mentions_compact),
                Ty::Vec(x) | Ty::VecDeque(x) | Ty::Box(x) | Ty::Cow(x) | Ty::BTreeSet(x) | Ty::BinaryHeap(x) | Ty::Array(x, _) | Ty::Option(x) | Ty::Range(x) | Ty::RangeInclusive(x) => {
                    mentions_compact(x)
                }
                Ty::Result(a, b_) | Ty::BTreeMap(a, b_) => mentions_compact(a) || mentions_compact(b_),
                _ => false,
            }
        }
        let a = DArms { max_depth: 2 };
        let (all, _, _) = enumerate(&a, 2, 1_000_000);
        for (_, s) in &all {
            if mentions_compact(&s.expr) {
                for pos in [Position::NamedStruct, Position::TupleVariant] {
                    states.push(js(json!({"prog": serde_json::to_value(arms_program(&s.expr, pos, false, "N")).unwrap(), "seeds": seeds, "qualified_compact": true})));
                }
            }
        }
    }
    let mut st = isolated_sweep(
        &format!(
            "{} + D-generic x every id x seeds 0..{seeds} (worker subprocesses)",
            info.iter()
                .map(|i| i.0.clone())
                .collect::<Vec<_>>()
                .join(" + ")
        ),
        "C14",
        &states,
        200,
        Duration::from_secs(if thorough { 1500 } else { 150 }),
        Duration::from_secs(10),
        "C14",
    );
    st.transitions = info.iter().map(|i| i.2).sum::<u64>().max(st.states);
    report.add(st);
    report.assumptions = vec![
        "the reader checks exactly the clauses the statement enumerates (path without generics, field names and arity incl. the marker, typed literals, tuple/array/vector shape) and is lenient elsewhere: Compact(..) accepted never required, Box::new not required, prelude composites only by path and components".into(),
        format!("seeds enumerated over 0..{seeds}"),
    ];
    report.finish()
}

pub fn replay(v: &Json) -> Result<Vec<Violation>, String> {
    let mut ctx = Ctx::default();
    if v["check"] == "C14-hist" && !v["prev"].is_null() {
        worker_check(&v["prev"], &mut Ctx::default());
    }
    worker_check(&v["state"], &mut ctx);
    Ok(ctx.violations)
}
