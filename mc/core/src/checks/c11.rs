//! C11 - settings validation is sound and complete; the similar-path query.

use crate::drivers::*;
use crate::engine::*;
use crate::run::guarded;
use crate::sched::*;
use crate::settings::*;
use crate::spm::*;
use scale_info::PortableRegistry;
use scale_typegen::typegen::validation::{
    similar_type_paths_in_registry, validate_substitutes_and_derives_against_registry,
};
use serde::{Deserialize, Serialize};
use serde_json::json;
use std::collections::{BTreeMap, BTreeSet};
use std::time::Duration;

/// what is registered for one path
#[derive(Clone, Copy, Debug, PartialEq, Eq, Hash, Serialize, Deserialize)]
pub enum Choice {
    Absent,
    SpecDerive,
    SpecAttr,
    RecDerive,
    RecAttr,
    /// specific {D1} and recursive {D2}
    SpecAndRecDerive,
    /// specific {D1, A1} and recursive {D1, A2}
    SpecAndRecBoth,
    Substitute,
    /// a substitute and specific {D1}: the same path in two registries
    SubstAndSpecDerive,
    /// a substitute and recursive {A2}
    SubstAndRecAttr,
    /// specific {D1} and recursive attribute {A2}: the path is in both maps, its derives in one, its attribute in the other
    SpecDeriveRecAttr,
    /// specific {D1} and specific {A1}
    SpecDeriveAndAttr,
}
pub const CHOICES: [Choice; 12] = [
    Choice::Absent,
    Choice::SpecDerive,
    Choice::SpecAttr,
    Choice::RecDerive,
    Choice::RecAttr,
    Choice::SpecAndRecDerive,
    Choice::SpecAndRecBoth,
    Choice::Substitute,
    Choice::SubstAndSpecDerive,
    Choice::SubstAndRecAttr,
    Choice::SpecDeriveRecAttr,
    Choice::SpecDeriveAndAttr,
];

/// known: p::a::K, p::r#type::L;  unknown: a::K (a proper suffix of a known path), p::a::Z, and (thorough tier)
/// p::b::L::X (a known path is its proper prefix)
/// (the module of L is named with a raw identifier, as `mod r#type` is recorded by scale-info)
pub const PATHS: [&str; 9] = [
    "p::a::K",
    "p::r#type::L",
    "a::K",
    // spelled with leading colons: registrations are keyed by the path as written
    "::p::a::Z",
    "p::r#type::L::X",
    // (paths 5.. are explored with at most one other path registered - see `extra_path_states`)
    // a known path with a module put in front of the final identifier, behind it, in front of everything
    "p::a::x::K",
    "p::a::K::K",
    "x::p::a::K",
    // only the final identifier of a known path
    "K",
];
const D1: &str = "::d::One";
const D2: &str = "::d::Two";
const A1: &str = "#[a1]";
const A2: &str = "#[a2(x)]";

#[derive(Clone, Debug, PartialEq, Eq, Hash, Serialize, Deserialize)]
pub struct ValState {
    pub choices: Vec<Choice>,
    /// the registry: 1..=3 = K only / K, L / K, L, M; 4 = K, L, M and five types in digit-suffixed sibling modules
    pub reg_size: u8,
    /// how many paths have been decided (construction depth)
    #[serde(default)]
    pub filled: u8,
}

fn registry(reg_size: u8) -> PortableRegistry {
    let mut defs = vec![
        Def::strukt(&["p", "a"], "K", &[], named(vec![("v", U8)])),
        Def::strukt(&["p", "r#type"], "L", &[], unnamed(vec![U16])),
        Def::strukt(&["p", "a", "Z2"], "M", &[], Fields::Unit),
    ];
    if reg_size <= 3 {
        defs.truncate(reg_size as usize);
    } else {
        // size 4: next to module `a` five types in modules whose names extend it by a digit (`a2`, `a20`): the order
        // of path segment lists and the order of the joined strings differ there (':' sorts after the digits)
        for (m, n) in [("a2", "X1"), ("a2", "X2"), ("a20", "X3"), ("a2", "X4"), ("a0", "X5")] {
            defs.push(Def::strukt(&["p", m], n, &[], Fields::Unit));
        }
    }
    let roots = (0..defs.len()).map(|i| Ty::Named(i, vec![])).collect();
    elaborate(&Program { defs, roots }).registry
}

fn spec_of(s: &ValState) -> SettingsSpec {
    let mut sp = SettingsSpec::default();
    for (p, c) in PATHS.iter().zip(&s.choices) {
        let p = p.to_string();
        match c {
            Choice::Absent => {}
            Choice::SpecDerive => sp.derives_for.push((p, vec![D1.into()], false)),
            Choice::SpecAttr => sp.attrs_for.push((p, vec![A1.into()], false)),
            Choice::RecDerive => sp.derives_for.push((p, vec![D2.into()], true)),
            Choice::RecAttr => sp.attrs_for.push((p, vec![A2.into()], true)),
            Choice::SpecAndRecDerive => {
                sp.derives_for.push((p.clone(), vec![D1.into()], false));
                sp.derives_for.push((p, vec![D2.into()], true));
            }
            Choice::SpecAndRecBoth => {
                sp.derives_for.push((p.clone(), vec![D1.into()], false));
                sp.attrs_for.push((p.clone(), vec![A1.into()], false));
                sp.derives_for.push((p.clone(), vec![D1.into()], true));
                sp.attrs_for.push((p, vec![A2.into()], true));
            }
            Choice::Substitute => sp.substitutes.push((
                p.clone(),
                format!("::t::{}", p.trim_start_matches("::").replace("::", "_").replace("r#", "")),
            )),
            Choice::SubstAndSpecDerive => {
                sp.substitutes.push((
                    p.clone(),
                    format!("::t::{}", p.trim_start_matches("::").replace("::", "_").replace("r#", "")),
                ));
                sp.derives_for.push((p, vec![D1.into()], false));
            }
            Choice::SpecDeriveRecAttr => {
                sp.derives_for.push((p.clone(), vec![D1.into()], false));
                sp.attrs_for.push((p, vec![A2.into()], true));
            }
            Choice::SpecDeriveAndAttr => {
                sp.derives_for.push((p.clone(), vec![D1.into()], false));
                sp.attrs_for.push((p, vec![A1.into()], false));
            }
            Choice::SubstAndRecAttr => {
                sp.substitutes.push((
                    p.clone(),
                    format!("::t::{}", p.trim_start_matches("::").replace("::", "_").replace("r#", "")),
                ));
                sp.attrs_for.push((p, vec![A2.into()], true));
            }
        }
    }
    sp
}

type Model = (
    BTreeMap<String, BTreeSet<String>>,
    BTreeMap<String, BTreeSet<String>>,
    BTreeMap<String, String>,
);

/// the set-algebra model of "unknown paths"
fn model(s: &ValState, reg: &PortableRegistry) -> Model {
    let known: BTreeSet<String> = reg
        .types
        .iter()
        .map(|t| t.ty.path.segments.join("::"))
        .collect();
    let mut d: BTreeMap<String, BTreeSet<String>> = BTreeMap::new();
    let mut a: BTreeMap<String, BTreeSet<String>> = BTreeMap::new();
    let mut sub: BTreeMap<String, String> = BTreeMap::new();
    for (p, c) in PATHS.iter().zip(&s.choices) {
        if known.contains(*p) {
            continue;
        }
        let p = p.to_string();
        let mut dd = |x: &str| {
            d.entry(p.clone()).or_default().insert(squash(x));
        };
        match c {
            Choice::Absent => {}
            Choice::SpecDerive | Choice::SubstAndSpecDerive | Choice::SpecDeriveRecAttr | Choice::SpecDeriveAndAttr => dd(D1),
            Choice::RecDerive => dd(D2),
            Choice::SpecAndRecDerive => {
                dd(D1);
                dd(D2)
            }
            Choice::SpecAndRecBoth => dd(D1),
            _ => {}
        }
        let mut aa = |x: &str| {
            a.entry(p.clone()).or_default().insert(squash(x));
        };
        match c {
            Choice::SpecAttr | Choice::SpecDeriveAndAttr => aa(A1),
            Choice::RecAttr | Choice::SubstAndRecAttr | Choice::SpecDeriveRecAttr => aa(A2),
            Choice::SpecAndRecBoth => {
                aa(A1);
                aa(A2)
            }
            _ => {}
        }
        if matches!(
            c,
            Choice::Substitute | Choice::SubstAndSpecDerive | Choice::SubstAndRecAttr
        ) {
            // substitute rules are keyed by the path's segments: the error names the source without leading colons
            sub.insert(
                p.trim_start_matches("::").to_string(),
                squash(&format!("::t::{}", p.trim_start_matches("::").replace("::", "_").replace("r#", ""))),
            );
        }
    }
    (d, a, sub)
}

fn tok(t: &impl quote::ToTokens) -> String {
    squash(&t.to_token_stream().to_string())
}

/// observed result as (derives, attributes, substitutes, duplicates?)
fn observe(sp: &SettingsSpec, reg: &PortableRegistry) -> Result<(Model, Vec<String>), String> {
    let derives = sp.build_derives();
    let subs = sp.build_substitutes();
    let r = guarded(|| validate_substitutes_and_derives_against_registry(&subs, &derives, reg))?;
    let mut problems = vec![];
    let mut d = BTreeMap::new();
    let mut a = BTreeMap::new();
    let mut s = BTreeMap::new();
    if let Err(e) = r {
        for (p, set) in &e.derives_for_unknown_types {
            let set: BTreeSet<String> = set.iter().map(tok).collect();
            if set.is_empty() {
                problems.push(format!("derive entry for {} is empty", tok(p)));
            }
            if d.insert(tok(p), set).is_some() {
                problems.push(format!("derive entry for {} listed twice", tok(p)));
            }
        }
        for (p, set) in &e.attributes_for_unknown_types {
            let set: BTreeSet<String> = set.iter().map(tok).collect();
            if set.is_empty() {
                problems.push(format!("attribute entry for {} is empty", tok(p)));
            }
            if a.insert(tok(p), set).is_some() {
                problems.push(format!("attribute entry for {} listed twice", tok(p)));
            }
        }
        for (p, t) in &e.substitutes_for_unknown_types {
            if s.insert(tok(p), tok(t)).is_some() {
                problems.push(format!("substitute entry for {} listed twice", tok(p)));
            }
        }
        if d.is_empty() && a.is_empty() && s.is_empty() {
            problems.push("Err with an empty error".into());
        }
    }
    Ok(((d, a, s), problems))
}

pub fn check_state(st: &ValState, ctx: &mut Ctx) {
    let reg = registry(st.reg_size);
    let sp = spec_of(st);
    let want = model(st, &reg);
    let replay = || json!({"check": "C11", "state": serde_json::to_value(st).unwrap()});
    // identity run gives the trace; then all schedules with <= 2 deviating iteration points
    let (first, trace) = run_with(&Sched::identity(), || observe(&sp, &reg));
    let scheds = schedules(&trace, 2, 6, 3);
    for sc in scheds {
        ctx.exec(1);
        let (got, _) = if sc.is_identity() {
            (first.clone(), vec![])
        } else {
            run_with(&sc, || observe(&sp, &reg))
        };
        match got {
            Err(p) => ctx.violation(
                "C11/panic",
                format!("validation panics: {p} (schedule {sc:?})"),
                replay(),
                1,
            ),
            Ok((got, problems)) => {
                ctx.outcome(&got);
                for p in problems {
                    ctx.violation(
                        format!("C11/malformed-error/{}", p.split(' ').next().unwrap_or("")),
                        format!("{p} (schedule {sc:?})"),
                        replay(),
                        1,
                    );
                }
                if got != want {
                    let clause = if got.0 != want.0 {
                        "derives"
                    } else if got.1 != want.1 {
                        "attributes"
                    } else {
                        "substitutes"
                    };
                    ctx.violation(
                        format!("C11/{clause}"),
                        format!(
                            "validation result {:?} differs from the model {:?} (schedule {sc:?})",
                            got, want
                        ),
                        replay(),
                        st.choices.iter().filter(|c| **c != Choice::Absent).count(),
                    );
                }
            }
        }
    }
}

pub fn extra_path_states() -> Vec<ValState> {
    let mut out = vec![];
    for r in 1..=4u8 {
        for extra in 5..PATHS.len() {
            for c in &CHOICES[1..] {
                let mut choices = vec![Choice::Absent; extra + 1];
                choices[extra] = *c;
                out.push(ValState { choices: choices.clone(), reg_size: r, filled: (extra + 1) as u8 });
                for other in 0..4 {
                    for c2 in &CHOICES[1..] {
                        let mut ch = choices.clone();
                        ch[other] = *c2;
                        out.push(ValState { choices: ch, reg_size: r, filled: (extra + 1) as u8 });
                    }
                }
            }
        }
    }
    out
}

struct DVal {
    n_paths: usize,
}
impl Driver for DVal {
    type State = ValState;
    fn name(&self) -> String {
        format!(
            "D-validate({} paths: 2 known + {} unknown (one a proper suffix of a known path{}) x 12 registrations each (specific / recursive / both / substitute / substitute+derive) x 4 registries x map orders)",
            self.n_paths,
            self.n_paths - 2,
            if self.n_paths > 4 { ", one extending a known path" } else { "" }
        )
    }
    fn initial(&self) -> Vec<ValState> {
        (1..=4u8)
            .map(|r| ValState {
                choices: vec![Choice::Absent; self.n_paths],
                reg_size: r,
                filled: 0,
            })
            .collect()
    }
    /// a transition changes the registration of one path (paths are filled left to right)
    fn successors(&self, s: &ValState, depth: u32) -> Vec<ValState> {
        let i = depth as usize;
        if i >= self.n_paths {
            return vec![];
        }
        CHOICES
            .iter()
            .map(|c| {
                let mut n = s.clone();
                n.choices[i] = *c;
                n.filled = (i + 1) as u8;
                n
            })
            .collect()
    }
    fn key(&self, s: &ValState) -> Option<u128> {
        Some(hash128(s))
    }
    fn describe(&self, s: &ValState) -> serde_json::Value {
        json!({"paths": &PATHS[..s.choices.len()], "choices": format!("{:?}", s.choices), "registry_user_types": s.reg_size})
    }
}

// ---- similar paths

#[derive(Clone, Debug, Serialize, Deserialize)]
pub struct SimCase {
    /// registry paths in registry order
    pub paths: Vec<String>,
    pub query: String,
}

fn sim_registry(paths: &[String]) -> PortableRegistry {
    let defs: Vec<Def> = paths
        .iter()
        .map(|p| {
            let segs: Vec<&str> = p.split("::").collect();
            let (name, module) = segs.split_last().unwrap();
            Def::strukt(module, name, &[], Fields::Unit)
        })
        .collect();
    let roots = (0..defs.len()).map(|i| Ty::Named(i, vec![])).collect();
    // Option<u8> adds a prelude path `Option` and primitives without a path
    let mut prog = Program { defs, roots };
    prog.roots.push(Ty::Option(b(U8)));
    elaborate(&prog).registry
}

fn query_path(q: &str) -> syn::Path {
    if q.is_empty() {
        syn::Path {
            leading_colon: None,
            segments: syn::punctuated::Punctuated::new(),
        }
    } else {
        parse_path(q)
    }
}

pub fn check_sim(c: &SimCase, ctx: &mut Ctx) {
    let reg = sim_registry(&c.paths);
    let q = query_path(&c.query);
    ctx.exec(1);
    let replay = || json!({"check": "C11-sim", "case": serde_json::to_value(c).unwrap()});
    let last = c.query.split('<').next().unwrap_or("").rsplit("::").next().unwrap_or("");
    let want: Vec<String> = if c.query.is_empty() {
        vec![]
    } else {
        reg.types
            .iter()
            .filter(|t| {
                t.ty.path
                    .segments
                    .last()
                    .map(|l| l == last)
                    .unwrap_or(false)
            })
            .map(|t| t.ty.path.segments.join("::"))
            .collect()
    };
    match guarded(|| similar_type_paths_in_registry(&reg, &q)) {
        Err(p) => ctx.violation("C11/similar/panic", p, replay(), c.paths.len()),
        Ok(got) => {
            let got: Vec<String> = got.iter().map(tok).collect();
            ctx.outcome(&got);
            if got != want {
                ctx.violation(
                    "C11/similar",
                    format!(
                        "similar_type_paths_in_registry({:?}) over {:?} = {:?}, model {:?}",
                        c.query, c.paths, got, want
                    ),
                    replay(),
                    c.paths.len(),
                );
            }
        }
    }
}

fn sim_cases(thorough: bool) -> Vec<SimCase> {
    let pool = [
        "a::S", "b::S", "a::T", "b::c::S", "b::c::T", "S::a", "a::S2",
    ];
    let pool = if thorough { &pool[..] } else { &pool[..6] };
    // (the last two are written the way a substitute source is: with generic arguments on the final segment)
    let queries = [
        "x::S", "S", "T", "y::U", "a::b::S", "", "Option", "a::S", "S::a", "x::S<A, B>", "T<A>",
    ];
    let mut out = vec![];
    // all subsets of size <= 4 in all orders
    fn perms(
        items: &[String],
        acc: &mut Vec<String>,
        used: &mut Vec<bool>,
        out: &mut Vec<Vec<String>>,
    ) {
        out.push(acc.clone());
        if acc.len() == 4 {
            return;
        }
        for i in 0..items.len() {
            if !used[i] {
                used[i] = true;
                acc.push(items[i].clone());
                perms(items, acc, used, out);
                acc.pop();
                used[i] = false;
            }
        }
    }
    let items: Vec<String> = pool.iter().map(|s| s.to_string()).collect();
    let mut regs = vec![];
    perms(
        &items,
        &mut vec![],
        &mut vec![false; items.len()],
        &mut regs,
    );
    for r in regs {
        for q in queries {
            out.push(SimCase {
                paths: r.clone(),
                query: q.to_string(),
            });
        }
    }
    out
}

pub fn run(tier: &str, seed: u64) -> i32 {
    let mut report = Report::new("C11", tier, seed, "model_checking");
    let thorough = tier == "thorough";
    let budget = Budget {
        max_depth: 5,
        wall: Duration::from_secs(if thorough { 1200 } else { 150 }),
        max_states: 10_000_000,
    };
    // only complete assignments (depth 4) differ from their prefixes by more `Absent`s; all are checked
    let dval = DVal {
        n_paths: if thorough { 5 } else { 4 },
    };
    report.add(explore(&dval, &budget, seed, |s, ctx| check_state(s, ctx)));
    // unknown paths that share their final identifier and a prefix / suffix with a known one: each alone, and
    // together with one registration on one of the first four paths
    let extra = extra_path_states();
    report.add(sweep(
        "D-validate extra unknown paths (a module inserted before / after the final identifier of a known path, the bare identifier) x 11 registrations, alone and next to one other registered path x 4 registries",
        &extra,
        Duration::from_secs(120),
        |s| json!({"paths": &PATHS[..s.choices.len()], "choices": format!("{:?}", s.choices), "registry_user_types": s.reg_size}),
        |s, ctx| check_state(s, ctx),
    ));
    let cases = sim_cases(thorough);
    report.add(sweep(
        "D-similar(all ordered selections of <= 4 registry paths over last identifiers {S, T, a, S2} x 11 queries)",
        &cases,
        Duration::from_secs(if thorough { 300 } else { 150 }),
        |c| serde_json::to_value(c).unwrap(),
        check_sim,
    ));
    report.extra.insert("hooks_enabled".into(), json!(HOOKS));
    report.assumptions = vec![
        "map iteration orders are explored through the verif-hooks look-alike maps: identity, 3 uniform permutations, and all schedules with <= 2 deviating iteration points".into(),
    ];
    report.finish()
}

pub fn replay(v: &serde_json::Value) -> Result<Vec<Violation>, String> {
    let mut ctx = Ctx::default();
    if v["check"] == "C11-sim" {
        let c: SimCase = serde_json::from_value(v["case"].clone()).map_err(|e| e.to_string())?;
        check_sim(&c, &mut ctx);
    } else {
        let s: ValState = serde_json::from_value(v["state"].clone()).map_err(|e| e.to_string())?;
        check_state(&s, &mut ctx);
    }
    Ok(ctx.violations)
}
