//! C01 - generated types are wire-faithful to the registry.

use crate::drivers::*;
use crate::engine::*;
use crate::interp::RustGraph;
use crate::run::*;
use crate::settings::SettingsSpec;
use crate::shape::{bisimilar, RegGraph};
use scale_info::PortableRegistry;
use serde_json::json;
use std::time::Duration;

pub fn reg_kind(reg: &PortableRegistry, id: u32) -> String {
    match reg.resolve(id) {
        None => "missing".into(),
        Some(t) => {
            let k = match &t.type_def {
                scale_info::TypeDef::Composite(_) => "composite",
                scale_info::TypeDef::Variant(_) => "variant",
                scale_info::TypeDef::Sequence(_) => "sequence",
                scale_info::TypeDef::Array(_) => "array",
                scale_info::TypeDef::Tuple(_) => "tuple",
                scale_info::TypeDef::Primitive(_) => "primitive",
                scale_info::TypeDef::Compact(_) => "compact",
                scale_info::TypeDef::BitSequence(_) => "bitsequence",
            };
            if t.path.segments.len() == 1 {
                format!("{k}:{}", t.path.segments[0])
            } else if t.path.segments.is_empty() {
                k.to_string()
            } else {
                format!("{k}:user")
            }
        }
    }
}

/// Result of running the faithfulness oracle on one registry.
pub enum Faith {
    GenErr(ErrKind),
    GenPanic(String),
    Unparsable(String),
    /// generation succeeded: token string and, per unfaithful id, (id, signature suffix, detail)
    Checked {
        tokens: String,
        bad: Vec<(u32, String, String)>,
        kinds: Vec<(String, bool)>,
        executions: u64,
    },
}

/// Generate, parse, interpret; for every id in `ids` compare the Rust type the generator names
/// with the registry's shape.
pub fn faithfulness(
    registry: &PortableRegistry,
    spec: &SettingsSpec,
    ids: Option<&[u32]>,
) -> Faith {
    let settings = spec.build();
    let tokens = match generate(registry, &settings) {
        GenOutcome::Ok { tokens } => tokens,
        GenOutcome::Err(e) => return Faith::GenErr(e),
        GenOutcome::Panic(m) => return Faith::GenPanic(m),
    };
    let emitted = match parse_emitted(&tokens) {
        Ok(e) => e,
        Err(e) => return Faith::Unparsable(e),
    };
    let rust = RustGraph::new(&emitted, spec);
    let reg = RegGraph(registry);
    let all: Vec<u32> = (0..registry.types.len() as u32).collect();
    let ids = ids.unwrap_or(&all);
    let mut bad = vec![];
    let mut kinds = vec![];
    let mut executions = 1;
    for &id in ids {
        executions += 1;
        let kind = reg_kind(registry, id);
        let path = match resolve_path(registry, &settings, id) {
            Ok(Ok(p)) => p,
            Ok(Err(e)) => {
                bad.push((
                    id,
                    format!("resolve-error/{}/{}", e.name(), kind),
                    format!("generation succeeded but resolve_type_path({id}) fails with {e:?}"),
                ));
                continue;
            }
            Err(p) => {
                bad.push((
                    id,
                    format!("resolve-panic/{}", truncate(&p, 60)),
                    format!(
                        "generation succeeded but resolve_type_path({id}) panics: {}",
                        truncate(&p, 120)
                    ),
                ));
                continue;
            }
        };
        let ty: syn::Type = match syn::parse_str(&path) {
            Ok(t) => t,
            Err(e) => {
                bad.push((
                    id,
                    format!("path-not-a-type/{kind}"),
                    format!("resolve_type_path({id}) = `{path}` is not a Rust type: {e}"),
                ));
                continue;
            }
        };
        let node = rust.node_of(&ty, &[]);
        match bisimilar(&reg, id, &rust, node) {
            Ok(()) => kinds.push((kind, true)),
            Err(m) => {
                kinds.push((kind.clone(), false));
                bad.push((
                    id,
                    format!("shape/{}/{}", m.class, kind),
                    format!(
                        "id {id} ({kind}) named `{}`: at `{}` registry has {} but the generated Rust type has {}",
                        crate::settings::squash(&path),
                        m.at,
                        truncate(&m.left, 160),
                        truncate(&m.right, 160)
                    ),
                ));
            }
        }
    }
    Faith::Checked {
        tokens,
        bad,
        kinds,
        executions,
    }
}

/// The C01 oracle on one (registry, settings) state. `ids`: which ids to check (None = all).
pub fn check_case(case: &Case, ctx: &mut Ctx, ids: Option<&[u32]>) {
    let registry = match case.registry() {
        Ok(r) => r,
        Err(e) => {
            ctx.note(
                format!(
                    "de-duplication failed: {} (reported by C04/C10)",
                    truncate(&e, 60)
                ),
                1,
            );
            return;
        }
    };
    if root_collides(&registry, &case.settings.root) {
        ctx.exclude("root module name occurs as a path segment of the registry (outside the supported settings)");
        return;
    }
    match faithfulness(&registry, &case.settings, ids) {
        Faith::GenErr(ErrKind::DuplicateTypePath(_)) => {
            ctx.exec(1);
            ctx.exclude("generation fails with DuplicateTypePath (C03/C04's subject)");
        }
        Faith::GenErr(e) => {
            // not a success: C01 says nothing; C10 owns "generation never fails on well-formed input"
            ctx.exec(1);
            ctx.note(
                format!("generation error {} (reported by C10)", e.name()),
                1,
            );
        }
        Faith::GenPanic(m) => {
            ctx.exec(1);
            ctx.note(
                format!("generation panic `{}` (reported by C10)", truncate(&m, 60)),
                1,
            );
        }
        Faith::Unparsable(e) => {
            ctx.exec(1);
            ctx.violation(
                "C01/unparsable-module",
                format!("emitted module does not parse: {e}"),
                case.replay("C01"),
                case.reg.size(),
            );
        }
        Faith::Checked {
            tokens,
            bad,
            kinds,
            executions,
        } => {
            ctx.exec(executions);
            for (_, sig, detail) in bad {
                ctx.violation(
                    format!("C01/{sig}"),
                    detail,
                    case.replay("C01"),
                    case.reg.size(),
                );
            }
            ctx.outcome(&(crate::settings::squash(&tokens), kinds));
        }
    }
}

/// WF8: the root module identifier must not occur as a path segment of a user type
pub fn root_collides(registry: &PortableRegistry, root: &str) -> bool {
    registry
        .types
        .iter()
        .any(|t| t.ty.path.segments.len() > 1 && t.ty.path.segments.iter().any(|s| s == root))
}

pub fn truncate(s: &str, n: usize) -> String {
    if s.len() <= n {
        s.to_string()
    } else {
        let mut end = n;
        while !s.is_char_boundary(end) {
            end -= 1;
        }
        format!("{}…", &s[..end])
    }
}

pub fn run(tier: &str, seed: u64) -> i32 {
    let mut report = Report::new("C01", tier, seed, "model_checking");
    let thorough = tier == "thorough";
    let settings = faithful_neighbourhood();
    // D-arms
    let d = DArms { max_depth: 2 };
    let budget = Budget {
        max_depth: 2,
        wall: Duration::from_secs(if thorough { 600 } else { 150 }),
        max_states: 5_000_000,
    };
    let st = explore(&d, &budget, seed, |s, ctx| {
        for (prog, pos) in arms_programs(&s.expr) {
            for (sname, spec) in &settings {
                // quick tier: full settings neighbourhood at depth <= 1, faithful only at depth 2
                if !thorough && s.depth >= 2 && sname != "faithful" {
                    continue;
                }
                let case = Case::new(
                    RegSrc::Prog(prog.clone()),
                    spec.clone(),
                    format!("D-arms {pos} settings {sname}"),
                );
                check_case(&case, ctx, None);
            }
            // one name per shortcut visible in the code: user types that are called like prelude types
            if s.depth <= 1 {
                for (which, name) in [
                    (D_N, "Cow"),
                    (D_G, "Cow"),
                    (D_N, "Option"),
                    (D_G, "Option"),
                    (D_G, "Vec"),
                    (D_N, "N1"),
                ] {
                    let mut p = prog.clone();
                    p.defs[which].name = name.to_string();
                    let case = Case::new(
                        RegSrc::Prog(p),
                        settings[0].1.clone(),
                        format!("D-arms {pos}, helper type named {name}"),
                    );
                    check_case(&case, ctx, None);
                }
            }
        }
    });
    report.add(st);
    for st in
        crate::checks::families::generic_and_family_stats("C01", thorough, seed, true, &|c, ctx| {
            check_case(c, ctx, None)
        })
    {
        report.add(st);
    }
    let g = crate::graph::quick_graph(if thorough { 3 } else { 2 });
    let gb = Budget {
        max_depth: g.max_edges as u32,
        wall: Duration::from_secs(if thorough { 900 } else { 150 }),
        max_states: 5_000_000,
    };
    report.add(explore(&g, &gb, seed, |s, ctx| {
        let mut spec = SettingsSpec::faithful();
        spec.root = "root".into();
        check_case(
            &Case::new(RegSrc::Prog(s.program()), spec, "D-graph"),
            ctx,
            None,
        );
    }));
    // D-chain: the Polkadot registry (de-duplicated, as every real user does) and every single-id closure
    let mut chain: Vec<Case> = vec![];
    for (sname, spec) in &settings {
        if sname == "subst=btreemap-values" {
            // that target's known shape is a u8-keyed map, which is what the maps of the small drivers are; the
            // maps of chain metadata have other keys
            continue;
        }
        let mut spec = spec.clone();
        if spec.root == "types" {
            // Polkadot has modules called `types`
            spec.root = "runtime_types".into();
        }
        let mut c = Case::new(
            RegSrc::Polkadot { retain: None },
            spec.clone(),
            format!("D-chain full, settings {sname}"),
        );
        c.dedup = true;
        chain.push(c);
        if !thorough {
            break;
        }
    }
    let n = crate::run::polkadot_registry().types.len() as u32;
    for id in 0..n {
        let mut spec = SettingsSpec::faithful();
        spec.root = "runtime_types".into();
        let mut c = Case::new(
            RegSrc::Polkadot { retain: Some(id) },
            spec,
            format!("D-chain retain({id})"),
        );
        c.dedup = true;
        chain.push(c);
    }
    // D-real: the shapes of real metadata in one source program (130 variants with index gaps, deep module
    // path, skipped middle parameter, 10-tuple, long arrays), under every setting of the neighbourhood
    for (pname, prog) in special_programs() {
        for (sname, spec) in &settings {
            chain.push(Case::new(RegSrc::Prog(prog.clone()), spec.clone(), format!("{pname}, settings {sname}")));
        }
    }
    let st = sweep(
        "D-chain(polkadot full + 918 single-id closures) + D-real / D-deep / degenerate registries x settings",
        &chain,
        Duration::from_secs(if thorough { 900 } else { 150 }),
        |c| json!({"case": c.note, "reg": c.reg.describe()}),
        |c, ctx| check_case(c, ctx, None),
    );
    report.add(st);
    if thorough {
        match roundtrip_tier() {
            Ok(st) => report.add(st),
            Err(e) => {
                eprintln!("machinery error: round-trip farm: {e}");
                return 2;
            }
        }
    }
    report.assumptions = vec![
        "registries are produced by the SPM elaborator, which is compared entry-for-entry with real scale-info on the conformance corpus".into(),
        "the interpreter's table of external paths (core/alloc/codec) is written from their documentation".into(),
    ];
    report.extra.insert(
        "settings_explored".into(),
        json!(settings.iter().map(|s| s.0.clone()).collect::<Vec<_>>()),
    );
    report.finish()
}

pub fn replay(case: &Case) -> Vec<Violation> {
    let mut ctx = Ctx::default();
    check_case(case, &mut ctx, None);
    ctx.violations
}

/// Thorough tier: enumerated encodings of every registry id are decoded with the REAL generated
/// type (rustc + parity-scale-codec derives), must consume all input and re-encode identically.
pub fn roundtrip_tier() -> Result<Stats, String> {
    use crate::farm::*;
    use crate::refenc::Enumerator;
    use rayon::prelude::*;
    let profile = compile_profile();
    let mut progs: Vec<(String, crate::spm::Program)> = vec![];
    let a = DArms { max_depth: 2 };
    let (all, _, _) = enumerate(&a, 2, 1_000_000);
    for (depth, s) in &all {
        for (prog, pos) in arms_programs(&s.expr) {
            // depth 2 only at the two variant positions (the struct positions are covered at depth <= 1)
            if *depth == 2 && !pos.contains("Variant") {
                continue;
            }
            progs.push((format!("D-arms {pos}"), prog));
        }
    }
    let g = crate::graph::quick_graph(2);
    let (all, _, _) = enumerate(&g, 2, 1_000_000);
    for (_, s) in &all {
        // recursive generics do not compile with the codec derive (known finding of C02)
        if s.nodes
            .iter()
            .any(|k| *k == crate::graph::NodeKind::GenericStruct)
            && s.cyclic_from(0)
        {
            continue;
        }
        progs.push(("D-graph".into(), s.program()));
    }
    {
        use crate::families::*;
        let d = DGeneric {
            max_fields: 2,
            max_insts: 2,
            include_cf3: false,
            body_forms: ALL_BODY_FORMS.to_vec(),
            param_forms: ALL_PARAM_FORMS.to_vec(),
        };
        let (all, _, _) = enumerate(&d, 1, 1_000_000);
        for (depth, s) in &all {
            if !crate::checks::c05::wf5_ok(s) {
                continue;
            }
            let prog = s.program();
            if s.insts
                .iter()
                .any(|a| coincidence(&prog.defs[G_D], a, &prog).is_err())
            {
                continue;
            }
            // self references of a generic definition do not compile with the codec derive
            if s.fields.iter().any(|f| matches!(&f.ty, crate::spm::Ty::Vec(x) | crate::spm::Ty::Box(x) if matches!(**x, crate::spm::Ty::Named(d, _) if d == G_D))) {
                continue;
            }
            if *depth == 2 && s.form != BodyForm::Named {
                continue;
            }
            progs.push(("D-generic".into(), prog));
        }
    }
    let built: Vec<Option<RtCase>> = progs
        .par_iter()
        .map(|(label, prog)| {
            let reg = crate::spm::elaborate(prog).registry;
            let settings = profile.build();
            let tokens = match generate(&reg, &settings) {
                GenOutcome::Ok { tokens } => tokens,
                _ => return None,
            };
            if tokens.contains("primitive :: char") {
                return None;
            }
            let en = Enumerator { reg: &reg, cap: 8 };
            let mut tests = vec![];
            for id in 0..reg.types.len() as u32 {
                let Some(encs) = en.encodings(id, 3) else {
                    continue;
                };
                if encs.is_empty() {
                    continue;
                }
                let Ok(Ok(path)) = resolve_path(&reg, &settings, id) else {
                    continue;
                };
                tests.push((id, path, encs));
            }
            let case = Case::new(RegSrc::Prog(prog.clone()), profile.clone(), "roundtrip");
            Some(RtCase {
                label: label.clone(),
                replay: case.replay("C01"),
                tokens,
                tests,
            })
        })
        .collect();
    let mut seen = std::collections::HashSet::new();
    let mut cases = vec![];
    for c in built.into_iter().flatten() {
        if seen.insert(hash128(&c.tokens)) {
            cases.push(c);
        }
    }
    let res = roundtrip(&cases, 16)?;
    let mut st = Stats {
        driver: format!(
            "round-trip farm: every enumerated encoding (boundary values, sequence lengths 0/1/2, every variant, depth 3) of every id of D-arms(depth<=1 all positions, depth 2 at variant positions), D-graph(edges<=2), D-generic(coincidence-free, depth<=1) decoded with the real compiled type ({} crates)",
            res.crates
        ),
        states: cases.len() as u64,
        transitions: res.decodes,
        max_depth: 1,
        bound_completed: 1,
        exhaustive: true,
        executed: res.decodes,
        distinct_outcomes: 1 + (res.failures.len() + res.compile_errors.len()).min(1) as u64,
        wall_s: res.wall_s,
        ..Default::default()
    };
    st.notes.insert(
        "encodings decoded with real compiled types".into(),
        res.decodes,
    );
    st.samples = cases
        .iter()
        .take(2)
        .map(|c| json!({"label": c.label, "module": truncate(&c.tokens, 300), "tests": c.tests.iter().take(3).map(|(id, p, e)| json!({"id": id, "type": p, "encodings": e})).collect::<Vec<_>>()}))
        .collect();
    let mut by: std::collections::BTreeMap<String, (u64, Violation)> = Default::default();
    let mut add = |sig: String, detail: String, replay: serde_json::Value, size: usize| {
        let v = Violation {
            sig: sig.clone(),
            detail,
            replay,
            size,
        };
        match by.get_mut(&sig) {
            Some((n, cur)) => {
                *n += 1;
                if v.size < cur.size {
                    *cur = v
                }
            }
            None => {
                by.insert(sig, (1, v));
            }
        }
    };
    for f in &res.failures {
        let c = &cases[f.case];
        let class = f.message.split(' ').nth(1).unwrap_or("failure").to_string();
        add(
            format!("C01/rustc-roundtrip/{class}"),
            format!(
                "id {} of a {} case: {} - module: {}",
                f.id,
                c.label,
                f.message,
                truncate(&c.tokens, 300)
            ),
            c.replay.clone(),
            c.tokens.len(),
        );
    }
    for e in &res.compile_errors {
        let c = &cases[e.case];
        // compile errors are C02's subject; they are noted here, not reported as C01 violations
        st.notes
            .entry(format!(
                "modules that do not compile ({}; reported by C02)",
                e.code
            ))
            .and_modify(|n| *n += 1)
            .or_insert(1);
        let _ = c;
    }
    st.violations = by
        .into_values()
        .map(|(n, mut v)| {
            v.detail = format!(
                "{} ({n} decodes fail this way; smallest module shown)",
                v.detail
            );
            v
        })
        .collect();
    Ok(st)
}
