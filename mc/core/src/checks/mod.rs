pub mod c01;
pub mod c02;
pub mod c03;
pub mod c05;
pub mod c06;
pub mod c07;
pub mod c08;
pub mod c09;
pub mod c10;
pub mod c11;
pub mod c12;
pub mod c13;
pub mod c14;
pub mod c15;
pub mod c16;
pub mod c17;
pub mod c18;
pub mod families;

use crate::drivers::Case;
use crate::engine::Violation;
use serde_json::Value;

pub fn run_check(id: &str, tier: &str, seed: u64) -> Option<i32> {
    Some(match id {
        "C01" => c01::run(tier, seed),
        "C02" => c02::run(tier, seed),
        "C03" => c03::run_c03(tier, seed),
        "C04" => c03::run_c04(tier, seed),
        "C05" => c05::run(tier, seed),
        "C06" => c06::run(tier, seed),
        "C07" => c07::run(tier, seed),
        "C08" => c08::run(tier, seed),
        "C09" => c09::run(tier, seed),
        "C10" => c10::run(tier, seed),
        "C11" => c11::run(tier, seed),
        "C12" => c12::run(tier, seed),
        "C13" => c13::run(tier, seed),
        "C14" => c14::run(tier, seed),
        "C15" => c15::run(tier, seed),
        "C16" => c16::run(tier, seed),
        "C17" => c17::run(tier, seed),
        "C18" => c18::run(tier, seed),
        _ => return None,
    })
}

fn case_of(replay: &Value) -> Result<Case, String> {
    serde_json::from_value(replay["case"].clone()).map_err(|e| format!("case: {e}"))
}

/// Re-execute one recorded counterexample against the real code, no explorer involved.
pub fn replay(replay: &Value) -> Result<Vec<Violation>, String> {
    Ok(match replay["check"].as_str().unwrap_or("") {
        "C01" => c01::replay(&case_of(replay)?),
        "C02" => c02::replay(&case_of(replay)?),
        "C03" => c03::replay_c03(&case_of(replay)?),
        "C04" => c03::replay_c04(&case_of(replay)?),
        "C05" => c05::replay(replay)?,
        "C06" => c06::replay(replay)?,
        "C07" => c07::replay(replay)?,
        "C08" => c08::replay(replay)?,
        "C09" => c09::replay(replay)?,
        "C10" | "C10-free" => c10::replay(replay)?,
        "C11" | "C11-sim" => c11::replay(replay)?,
        "C16" => c16::replay(replay)?,
        "C17" => c17::replay(replay)?,
        "C18" => c18::replay(&case_of(replay)?),
        "C12" | "C12-hist" => c12::replay(replay)?,
        "C13" => c13::replay(replay)?,
        "C14" | "C14-hist" => c14::replay(replay)?,
        "C15" => c15::replay(replay["input"].as_str().ok_or("input")?),
        "crash" => return Err("this replay records a crash of the whole exploration process; re-run the check to reproduce".into()),
        other => return Err(format!("unknown replay kind `{other}`")),
    })
}

/// worker subprocess entry (crash isolation): `mc worker <name>`
pub fn worker(name: &str) -> Option<()> {
    match name {
        "C07" => crate::engine::worker_loop(c07::worker_check),
        "C12" => crate::engine::worker_loop(c12::worker_check),
        "C13" => crate::engine::worker_loop(c13::worker_check),
        "C14" => crate::engine::worker_loop(c14::worker_check),
        _ => return None,
    }
    Some(())
}
