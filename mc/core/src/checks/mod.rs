pub mod c01;
