//! C12 - example SCALE values are valid instances of their type.
//! States are evaluated in worker subprocesses: a stack overflow or an endless loop in the
//! example generator kills / stalls the worker, not the check, and pins the culprit state.

use crate::checks::c01::truncate;
use crate::drivers::*;
use crate::engine::*;
use crate::graph::*;
use crate::run::guarded;
use crate::spm::*;
use scale_info::{PortableRegistry, TypeDef};
use scale_typegen_description::scale_value_from_seed;
use serde_json::{json, Value as Json};
use std::collections::{BTreeSet, HashSet};
use std::time::Duration;

/// ids reachable from `id` through fields, variants, elements, compact, bit store/order (not type params)
fn reachable(reg: &PortableRegistry, id: u32) -> BTreeSet<u32> {
    let mut seen = BTreeSet::new();
    let mut stack = vec![id];
    while let Some(i) = stack.pop() {
        if !seen.insert(i) {
            continue;
        }
        let Some(t) = reg.resolve(i) else { continue };
        match &t.type_def {
            TypeDef::Composite(c) => stack.extend(c.fields.iter().map(|f| f.ty.id)),
            TypeDef::Variant(v) => stack.extend(
                v.variants
                    .iter()
                    .flat_map(|v| v.fields.iter().map(|f| f.ty.id)),
            ),
            TypeDef::Sequence(s) => stack.push(s.type_param.id),
            TypeDef::Array(a) => stack.push(a.type_param.id),
            TypeDef::Tuple(t) => stack.extend(t.fields.iter().map(|f| f.id)),
            TypeDef::Compact(c) => stack.push(c.type_param.id),
            TypeDef::Primitive(_) | TypeDef::BitSequence(_) => {}
        }
    }
    seen
}

fn successors_of(reg: &PortableRegistry, i: u32) -> Vec<u32> {
    match reg.resolve(i).map(|t| &t.type_def) {
        Some(TypeDef::Composite(c)) => c.fields.iter().map(|f| f.ty.id).collect(),
        Some(TypeDef::Variant(v)) => v
            .variants
            .iter()
            .flat_map(|v| v.fields.iter().map(|f| f.ty.id))
            .collect(),
        Some(TypeDef::Sequence(s)) => vec![s.type_param.id],
        Some(TypeDef::Array(a)) => vec![a.type_param.id],
        Some(TypeDef::Tuple(t)) => t.fields.iter().map(|f| f.id).collect(),
        Some(TypeDef::Compact(c)) => vec![c.type_param.id],
        _ => vec![],
    }
}

/// does the part of the type graph reachable from `id` contain a cycle?
fn has_cycle(reg: &PortableRegistry, id: u32) -> bool {
    fn dfs(reg: &PortableRegistry, v: u32, on: &mut HashSet<u32>, done: &mut HashSet<u32>) -> bool {
        if on.contains(&v) {
            return true;
        }
        if done.contains(&v) {
            return false;
        }
        on.insert(v);
        for s in successors_of(reg, v) {
            if dfs(reg, s, on, done) {
                return true;
            }
        }
        on.remove(&v);
        done.insert(v);
        false
    }
    dfs(reg, id, &mut HashSet::new(), &mut HashSet::new())
}

fn has_empty_enum(reg: &PortableRegistry, ids: &BTreeSet<u32>) -> bool {
    ids.iter().any(|i| matches!(reg.resolve(*i).map(|t| &t.type_def), Some(TypeDef::Variant(v)) if v.variants.is_empty()))
}

/// precondition of the property: compact wraps unsigned integers or single-field wrappers of them
fn compact_ok(reg: &PortableRegistry, ids: &BTreeSet<u32>) -> bool {
    fn ok_inner(reg: &PortableRegistry, id: u32, depth: usize) -> bool {
        if depth > 8 {
            return false;
        }
        match reg.resolve(id).map(|t| &t.type_def) {
            Some(TypeDef::Primitive(p)) => matches!(
                p,
                scale_info::TypeDefPrimitive::U8
                    | scale_info::TypeDefPrimitive::U16
                    | scale_info::TypeDefPrimitive::U32
                    | scale_info::TypeDefPrimitive::U64
                    | scale_info::TypeDefPrimitive::U128
            ),
            Some(TypeDef::Composite(c)) if c.fields.len() == 1 => {
                ok_inner(reg, c.fields[0].ty.id, depth + 1)
            }
            _ => false,
        }
    }
    ids.iter()
        .all(|i| match reg.resolve(*i).map(|t| &t.type_def) {
            Some(TypeDef::Compact(c)) => ok_inner(reg, c.type_param.id, 0),
            _ => true,
        })
}

/// names of the variants occurring in a value (for coverage)
fn variants_in(v: &scale_value::Value<()>, out: &mut BTreeSet<String>) {
    match &v.value {
        scale_value::ValueDef::Variant(var) => {
            out.insert(var.name.clone());
            for x in var.values.values() {
                variants_in(x, out);
            }
        }
        scale_value::ValueDef::Composite(c) => {
            for x in c.values() {
                variants_in(x, out);
            }
        }
        _ => {}
    }
}

pub fn check_registry(
    reg: &PortableRegistry,
    ids: &[u32],
    seeds: u64,
    replay: &dyn Fn(u32, u64) -> Json,
    ctx: &mut Ctx,
) {
    let mut variants_seen: BTreeSet<(u32, String)> = BTreeSet::new();
    for &id in ids {
        let reach = reachable(reg, id);
        if !compact_ok(reg, &reach) {
            ctx.exclude("a compact wraps something other than an unsigned integer or a single-field wrapper (outside the quantifier)");
            continue;
        }
        let must_be_ok = !has_cycle(reg, id) && !has_empty_enum(reg, &reach);
        let size = reg.types.len();
        for seed in 0..seeds {
            ctx.exec(1);
            let r = guarded(|| scale_value_from_seed(id, reg, seed));
            let r2 = guarded(|| scale_value_from_seed(id, reg, seed));
            let v = match r {
                Err(p) => {
                    ctx.violation(
                        format!("C12/panic/{}", truncate(&p, 40)),
                        format!("scale_value_from_seed({id}, seed {seed}) panics: {p}"),
                        replay(id, seed),
                        size,
                    );
                    continue;
                }
                Ok(Err(e)) => {
                    if must_be_ok {
                        ctx.violation(
                            "C12/no-value-for-acyclic-type",
                            format!("no cycle and no empty enum is reachable from id {id}, but seed {seed} gives Err({})", truncate(&format!("{e}"), 120)),
                            replay(id, seed),
                            size,
                        );
                    }
                    ctx.outcome(&("err", must_be_ok));
                    if !matches!(r2, Ok(Err(_))) {
                        ctx.violation(
                            "C12/nondeterministic",
                            format!(
                                "id {id} seed {seed}: Err once, something else the second time"
                            ),
                            replay(id, seed),
                            size,
                        );
                    }
                    continue;
                }
                Ok(Ok(v)) => v,
            };
            match r2 {
                Ok(Ok(v2)) if v2 == v => {}
                _ => ctx.violation(
                    "C12/nondeterministic",
                    format!("id {id} seed {seed}: two calls with the same seed differ"),
                    replay(id, seed),
                    size,
                ),
            }
            let mut names = BTreeSet::new();
            variants_in(&v, &mut names);
            for n in names {
                variants_seen.insert((id, n));
            }
            let mut bytes = vec![];
            match guarded(|| scale_value::scale::encode_as_type(&v, id, reg, &mut bytes)) {
                Err(p) => {
                    ctx.violation(
                        "C12/encode-panic",
                        format!(
                            "encode_as_type panics for the example of id {id} seed {seed}: {p}"
                        ),
                        replay(id, seed),
                        size,
                    );
                    continue;
                }
                Ok(Err(e)) => {
                    // locus: the type the encoder was at when it gave up
                    let msg = format!("{e}");
                    let at = msg
                        .split("type with ID ")
                        .nth(1)
                        .and_then(|r| r.split(|c: char| !c.is_ascii_digit()).next())
                        .and_then(|n| n.parse::<u32>().ok())
                        .map(|n| match reg.resolve(n).map(|t| &t.type_def) {
                            Some(TypeDef::Primitive(p)) => format!("primitive({p:?})"),
                            _ => crate::checks::c01::reg_kind(reg, n),
                        })
                        .unwrap_or_else(|| crate::checks::c01::reg_kind(reg, id));
                    fn has_char(v: &scale_value::Value<()>) -> bool {
                        match &v.value {
                            scale_value::ValueDef::Primitive(scale_value::Primitive::Char(_)) => {
                                true
                            }
                            scale_value::ValueDef::Composite(c) => c.values().any(has_char),
                            scale_value::ValueDef::Variant(x) => x.values.values().any(has_char),
                            _ => false,
                        }
                    }
                    let at = if has_char(&v) {
                        "value-contains-char".to_string()
                    } else {
                        format!("at:{at}")
                    };
                    ctx.violation(
                        format!("C12/does-not-encode/{at}"),
                        format!("example of id {id} (seed {seed}) = {} does not encode as that type: {e}", truncate(&format!("{v}"), 200)),
                        replay(id, seed),
                        size,
                    );
                    continue;
                }
                Ok(Ok(())) => {}
            }
            let mut cursor = &bytes[..];
            match guarded(|| scale_value::scale::decode_as_type(&mut cursor, id, reg)) {
                Err(p) => ctx.violation(
                    "C12/decode-panic",
                    format!("decode panics: {p}"),
                    replay(id, seed),
                    size,
                ),
                Ok(Err(e)) => ctx.violation(
                    "C12/does-not-decode",
                    format!("bytes of the example of id {id} (seed {seed}) do not decode: {e}"),
                    replay(id, seed),
                    size,
                ),
                Ok(Ok(back)) => {
                    if !cursor.is_empty() {
                        ctx.violation(
                            "C12/trailing-bytes",
                            format!(
                                "decoding the example of id {id} (seed {seed}) leaves {} bytes",
                                cursor.len()
                            ),
                            replay(id, seed),
                            size,
                        );
                    }
                    let back = back.remove_context();
                    if back != v {
                        ctx.violation(
                            format!("C12/roundtrip/{}", crate::checks::c01::reg_kind(reg, id)),
                            format!(
                                "example of id {id} (seed {seed}) = {} decodes back to {}",
                                truncate(&format!("{v}"), 160),
                                truncate(&format!("{back}"), 160)
                            ),
                            replay(id, seed),
                            size,
                        );
                    }
                    ctx.outcome(&bytes);
                }
            }
        }
    }
    // variant coverage of this registry within the seed range
    let mut total = 0u64;
    for &id in ids {
        if let Some(TypeDef::Variant(v)) = reg.resolve(id).map(|t| &t.type_def) {
            total += v.variants.len() as u64;
        }
    }
    let direct: u64 = variants_seen
        .iter()
        .filter(|(id, n)| matches!(reg.resolve(*id).map(|t| &t.type_def), Some(TypeDef::Variant(v)) if v.variants.iter().any(|x| x.name == *n)))
        .count() as u64;
    ctx.note("enum variants in the explored ids (total)", total);
    ctx.note(
        "enum variants produced at least once as the top-level example of their enum",
        direct.min(total),
    );
}

/// "Start from a non-initial state": the registry of the previous state of this worker is overwritten IN PLACE
/// by the current one (same `&PortableRegistry` address, different content), and every call on it must give
/// what the call gives on an independently allocated copy. Anything remembered between calls under a key that
/// does not determine the registry content (an address, an id) shows up here, deterministically.
pub struct PrevSlot {
    pub reg: Option<Box<PortableRegistry>>,
    pub prev_state: Option<Json>,
}
pub static PREV: std::sync::Mutex<PrevSlot> = std::sync::Mutex::new(PrevSlot {
    reg: None,
    prev_state: None,
});

pub fn same_address_clause<T: PartialEq + std::fmt::Debug>(
    prop: &str,
    state: &Json,
    reg: &PortableRegistry,
    seeds: u64,
    call: &dyn Fn(u32, &PortableRegistry, u64) -> Result<Result<T, String>, String>,
    ctx: &mut Ctx,
) {
    let mut slot = PREV.lock().unwrap_or_else(|e| e.into_inner());
    let prev_state = slot.prev_state.clone();
    match &mut slot.reg {
        Some(b) => **b = reg.clone(),
        None => slot.reg = Some(Box::new(reg.clone())),
    }
    slot.prev_state = Some(state.clone());
    let here: &PortableRegistry = slot.reg.as_ref().unwrap();
    for id in 0..reg.types.len() as u32 {
        for seed in 0..seeds.min(2) {
            ctx.exec(2);
            let fresh = call(id, reg, seed);
            let reused = call(id, here, seed);
            if fresh != reused {
                ctx.violation(
                    format!("{prop}/depends-on-earlier-calls"),
                    format!(
                        "id {id} seed {seed}: the call on a registry stored where the previous registry of this process was gives {}, the call on a fresh copy gives {}",
                        truncate(&format!("{reused:?}"), 160),
                        truncate(&format!("{fresh:?}"), 160)
                    ),
                    json!({"check": format!("{prop}-hist"), "prev": prev_state, "state": state}),
                    reg.types.len(),
                );
                return;
            }
        }
    }
}

/// worker entry: state = {"prog": Program, "seeds": n} | {"polkadot": [lo, hi], "seeds": n}
pub fn worker_check(state: &Json, ctx: &mut Ctx) {
    let seeds = state["seeds"].as_u64().unwrap_or(8);
    if let Some(range) = state.get("polkadot") {
        let reg = RegSrc::Polkadot { retain: None }.registry();
        let lo = range[0].as_u64().unwrap_or(0) as u32;
        let hi = range[1].as_u64().unwrap_or(0) as u32;
        let ids: Vec<u32> = (lo..hi).collect();
        check_registry(
            &reg,
            &ids,
            seeds,
            &|id, seed| json!({"check": "C12", "state": {"polkadot": [id, id + 1], "seeds": seed + 1}}),
            ctx,
        );
    } else {
        let prog: Program = serde_json::from_value(state["prog"].clone()).expect("program");
        let reg = elaborate(&prog).registry;
        let ids: Vec<u32> = (0..reg.types.len() as u32).collect();
        let src = prog.to_source();
        check_registry(
            &reg,
            &ids,
            seeds,
            &|id, seed| json!({"check": "C12", "state": {"prog": serde_json::to_value(&prog).unwrap(), "seeds": seed + 1}, "id": id, "source": src}),
            ctx,
        );
        same_address_clause(
            "C12",
            state,
            &reg,
            seeds,
            &|id, r, seed| {
                guarded(|| {
                    scale_value_from_seed(id, r, seed)
                        .map(|v| v.to_string())
                        .map_err(|e| format!("{e}"))
                })
            },
            ctx,
        );
    }
}

/// compact JSON line of a state
pub fn js(v: Json) -> String {
    serde_json::to_string(&v).unwrap()
}

pub fn description_states(
    thorough: bool,
    seeds: u64,
) -> (Vec<String>, Vec<(String, u64, u64, bool)>) {
    let mut states = vec![];
    let mut info = vec![];
    // D-graph
    let g = quick_graph(if thorough { 3 } else { 2 });
    let (all, tr, complete) = enumerate(&g, g.max_edges as u32, 3_000_000);
    info.push((g.name(), all.len() as u64, tr, complete));
    for (_, s) in &all {
        states.push(js(
            json!({"prog": serde_json::to_value(s.program()).unwrap(), "seeds": seeds}),
        ));
    }
    // D-arms at the named-variant and root positions
    let a = DArms { max_depth: 2 };
    let (all, tr, complete) = enumerate(&a, 2, 3_000_000);
    info.push((a.name(), all.len() as u64, tr, complete));
    for (_, s) in &all {
        for pos in [Position::NamedVariant, Position::TupleStruct] {
            states.push(js(json!({"prog": serde_json::to_value(arms_program(&s.expr, pos, false, "N")).unwrap(), "seeds": seeds})));
        }
    }
    // D-rec: one input per shortcut of the recursion guard - an enum whose one recursive variant holds
    // k self references (through Box / Vec / Option<Box>), reached r times from a root struct
    let mut rec = 0u64;
    for k in 1..=3usize {
        for r in 1..=3usize {
            for via in [Label::Boxed, Label::Vec, Label::OptBox] {
                let wrap = |t: Ty| match via {
                    Label::Boxed => Ty::Box(b(t)),
                    Label::Vec => Ty::Vec(b(t)),
                    _ => Ty::Option(b(Ty::Box(b(t)))),
                };
                let tree = Def::enm(
                    &["g", "t"],
                    "Tree",
                    &[],
                    vec![
                        variant("Leaf", Fields::Unit),
                        variant(
                            "Node",
                            Fields::Unnamed(
                                (0..k)
                                    .map(|_| Field::new(wrap(Ty::Named(0, vec![]))))
                                    .collect(),
                            ),
                        ),
                    ],
                );
                let forest = Def::strukt(
                    &["g", "t"],
                    "Forest",
                    &[],
                    Fields::Named(
                        (0..r)
                            .map(|i| (format!("t{i}"), Field::new(Ty::Named(0, vec![]))))
                            .collect(),
                    ),
                );
                let prog = Program {
                    defs: vec![tree, forest],
                    roots: vec![Ty::Named(1, vec![])],
                };
                states.push(js(json!({"prog": serde_json::to_value(prog).unwrap(), "seeds": seeds.max(if thorough { 64 } else { 24 })})));
                rec += 1;
            }
        }
    }
    // ... and enums WITHOUT a leaf variant (every variant leads back into the cycle): one-variant `Onion`, a
    // two-variant one, and a mutually recursive pair, each through Box / Vec
    for via in [Label::Boxed, Label::Vec] {
        let wrap = |t: Ty| match via {
            Label::Boxed => Ty::Box(b(t)),
            _ => Ty::Vec(b(t)),
        };
        let onion1 = Def::enm(
            &["g", "t"],
            "Onion",
            &[],
            vec![variant(
                "Layer",
                Fields::Unnamed(vec![Field::new(wrap(Ty::Named(0, vec![])))]),
            )],
        );
        let onion2 = Def::enm(
            &["g", "t"],
            "Onion",
            &[],
            vec![
                variant(
                    "Layer",
                    Fields::Unnamed(vec![Field::new(wrap(Ty::Named(0, vec![])))]),
                ),
                variant(
                    "Pair",
                    Fields::Named(vec![
                        ("l".into(), Field::new(wrap(Ty::Named(0, vec![])))),
                        ("r".into(), Field::new(wrap(Ty::Named(0, vec![])))),
                    ]),
                ),
            ],
        );
        let ping = Def::enm(
            &["g", "t"],
            "Ping",
            &[],
            vec![variant(
                "Many",
                Fields::Unnamed(vec![Field::new(wrap(Ty::Named(1, vec![])))]),
            )],
        );
        let pong = Def::enm(
            &["g", "t"],
            "Pong",
            &[],
            vec![variant(
                "Back",
                Fields::Unnamed(vec![Field::new(Ty::Tuple(vec![
                    U8,
                    wrap(Ty::Named(0, vec![])),
                ]))]),
            )],
        );
        for defs in [
            vec![onion1.clone()],
            vec![onion2.clone()],
            vec![ping.clone(), pong.clone()],
        ] {
            let prog = Program {
                defs,
                roots: vec![Ty::Named(0, vec![])],
            };
            states.push(js(
                json!({"prog": serde_json::to_value(prog).unwrap(), "seeds": seeds}),
            ));
            rec += 1;
        }
    }
    // ... and cycles that pass through a tuple inside a sequence / an array of optional boxes (an element that
    // fails must fail the whole value, not shorten it)
    {
        let node = Def::strukt(&["g", "t"], "Node", &[], named(vec![("id", U8), ("children", Ty::Vec(b(Ty::Tuple(vec![U32, Ty::Named(0, vec![])]))))]));
        let tree = Def::strukt(
            &["g", "t"],
            "Tree",
            &[],
            named(vec![("label", U8), ("sub", Ty::Vec(b(Ty::Tuple(vec![U16, Ty::Option(b(Ty::Box(b(Ty::Named(0, vec![])))))]))))]),
        );
        let arr = Def::strukt(&["g", "t"], "Pair", &[], named(vec![("key", U32), ("both", Ty::Array(b(Ty::Option(b(Ty::Box(b(Ty::Named(0, vec![])))))), 2))]));
        for d in [node, tree, arr] {
            let prog = Program {
                defs: vec![d],
                roots: vec![Ty::Named(0, vec![])],
            };
            states.push(js(json!({"prog": serde_json::to_value(prog).unwrap(), "seeds": seeds.max(16)})));
            rec += 1;
        }
    }
    info.push(("D-rec(recursive enum with k<=3 self references in one variant, reached r<=3 times, via Box/Vec/Option<Box>; enums without a leaf variant, self- and mutually recursive; cycles through Vec<(u32, Self)>, Vec<(u16, Option<Box<Self>>)>, [Option<Box<Self>>; 2])".into(), rec, rec, true));
    // D-samename: two definitions with one identifier in different modules (anything remembered per name
    // instead of per id / full path confuses them), every ordered pair of six bodies, both visited from one root
    let mut same = 0u64;
    {
        let bodies: Vec<(Vec<&str>, Body)> = vec![
            (
                vec!["T"],
                Body::Struct(named(vec![("weight", Ty::Param(0))])),
            ),
            (
                vec!["T"],
                Body::Struct(named(vec![
                    ("weight", U32),
                    ("m", Ty::Phantom(b(Ty::Param(0)))),
                ])),
            ),
            (vec![], Body::Struct(named(vec![("weight", U8)]))),
            (
                vec!["T"],
                Body::Enum(vec![
                    variant("A", Fields::Unnamed(vec![Field::new(Ty::Param(0))])),
                    variant("B", Fields::Unit),
                ]),
            ),
            (vec!["T"], Body::Struct(unnamed(vec![Ty::Param(0)]))),
            (
                vec!["T", "U"],
                Body::Struct(named(vec![
                    ("a", Ty::Param(0)),
                    ("m", Ty::Phantom(b(Ty::Param(1)))),
                ])),
            ),
        ];
        let args = |n: usize| -> Vec<Ty> { [U8, U16][..n].to_vec() };
        for (i, (pa, ba)) in bodies.iter().enumerate() {
            for (j, (pb, bb)) in bodies.iter().enumerate() {
                if i == j {
                    continue;
                }
                let mk = |module: &str, params: &Vec<&str>, body: &Body| Def {
                    body: body.clone(),
                    ..Def::strukt(&["g", module], "Slot", params, Fields::Unit)
                };
                let left = mk("left", pa, ba);
                let right = mk("right", pb, bb);
                let host = Def::strukt(
                    &["g", "h"],
                    "R",
                    &[],
                    named(vec![
                        ("first", Ty::Named(0, args(pa.len()))),
                        ("second", Ty::Named(1, args(pb.len()))),
                        ("again", Ty::Vec(b(Ty::Named(0, args(pa.len()))))),
                    ]),
                );
                let prog = Program {
                    defs: vec![left, right, host],
                    roots: vec![Ty::Named(2, vec![])],
                };
                states.push(js(
                    json!({"prog": serde_json::to_value(prog).unwrap(), "seeds": seeds}),
                ));
                same += 1;
            }
        }
    }
    info.push(("D-samename(two definitions named alike in different modules, all ordered pairs of 6 bodies)".into(), same, same, true));
    // D-unicode: field and variant names outside ASCII (type and module names must be ASCII for scale-info);
    // D-twice: one generic instantiation whose argument contains a tuple / unit, referred to twice (the second
    // reference is a cache hit on a finished type)
    {
        let s = Def::strukt(&["g", "u"], "Mass", &[], named(vec![("l\u{e4}nge", U8), ("\u{4e2d}", Ty::Vec(b(U16)))]));
        let e = Def::enm(
            &["g", "u"],
            "Art",
            &[],
            vec![
                variant("\u{c4}", Fields::Unnamed(vec![Field::new(U8)])),
                variant("\u{6587}", Fields::Named(vec![("\u{e9}".into(), Field::new(Ty::Named(0, vec![])))])),
            ],
        );
        let prog = Program {
            defs: vec![s, e],
            roots: vec![Ty::Named(1, vec![])],
        };
        states.push(js(json!({"prog": serde_json::to_value(prog).unwrap(), "seeds": seeds})));
        let pair = Def::strukt(&["g", "w"], "Pair", &["T"], named(vec![("p", Ty::Param(0))]));
        let tagged = Def::strukt(&["g", "w"], "Tagged", &["T"], unnamed(vec![Ty::Param(0), Ty::Prim(Prim::Bool)]));
        let tup = Ty::Tuple(vec![U8, U16]);
        let host = Def::strukt(
            &["g", "w"],
            "Twice",
            &[],
            named(vec![
                ("a", Ty::Named(0, vec![tup.clone()])),
                ("b", Ty::Named(0, vec![tup.clone()])),
                ("c", Ty::Result(b(Ty::Tuple(vec![])), b(U8))),
                ("d", Ty::Result(b(Ty::Tuple(vec![])), b(U8))),
                ("e", Ty::Vec(b(Ty::Named(0, vec![Ty::Tuple(vec![])])))),
                ("f", Ty::Option(b(Ty::Named(0, vec![Ty::Tuple(vec![])])))),
                ("g", Ty::Named(2, vec![tup.clone()])),
                ("h", Ty::Named(2, vec![tup.clone()])),
                ("i", Ty::Vec(b(Ty::Named(2, vec![Ty::Tuple(vec![])])))),
                ("j", Ty::Named(2, vec![Ty::Tuple(vec![])])),
            ]),
        );
        let prog = Program {
            defs: vec![pair, host, tagged],
            roots: vec![Ty::Named(1, vec![])],
        };
        states.push(js(json!({"prog": serde_json::to_value(prog).unwrap(), "seeds": seeds})));
        info.push(("D-unicode(non-ASCII field and variant names) + D-twice(a generic with a tuple / unit argument referred to twice)".into(), 2, 2, true));
    }
    // D-real: the shapes of real metadata in one program (see drivers::real_shapes_program)
    for (_, prog) in special_programs() {
        states.push(js(json!({"prog": serde_json::to_value(prog).unwrap(), "seeds": seeds.min(8)})));
    }
    info.push(("D-real(130 variants with index gaps, deep module path, skipped middle parameter, 10-tuple, arrays of 64 / 256) + D-deep(ten modules, five nested generics, a chain of forty-eight structs, ten nested wrappers) + 7 degenerate registries".into(), 9, 9, true));
    // D-width: many draws of every integer kind per seed ([[p; 32]; 32])
    let mut width = 0u64;
    for p in Prim::INTS {
        let prog = Program {
            defs: vec![],
            roots: vec![Ty::Array(b(Ty::Array(b(Ty::Prim(p)), 32)), 32)],
        };
        states.push(js(
            json!({"prog": serde_json::to_value(prog).unwrap(), "seeds": seeds}),
        ));
        width += 1;
    }
    info.push((
        "D-width(1024 values of each integer kind per seed)".into(),
        width,
        width,
        true,
    ));
    // D-chain
    let n = crate::run::polkadot_registry().types.len() as u64;
    let step = 16;
    let mut lo = 0;
    while lo < n {
        states.push(js(
            json!({"polkadot": [lo, (lo + step).min(n)], "seeds": seeds}),
        ));
        lo += step;
    }
    info.push(("D-chain(polkadot, every id)".into(), n, n, true));
    (states, info)
}

pub fn run(tier: &str, seed: u64) -> i32 {
    let mut report = Report::new("C12", tier, seed, "model_checking");
    let thorough = tier == "thorough";
    let seeds = if thorough { 64 } else { 32 };
    let (states, info) = description_states(thorough, seeds);
    let mut st = isolated_sweep(
        &format!(
            "{} x every id x seeds 0..{seeds} (worker subprocesses)",
            info.iter()
                .map(|i| i.0.clone())
                .collect::<Vec<_>>()
                .join(" + ")
        ),
        "C12",
        &states,
        if thorough { 400 } else { 200 },
        Duration::from_secs(if thorough { 1500 } else { 150 }),
        Duration::from_secs(10),
        "C12",
    );
    st.transitions = info.iter().map(|i| i.2).sum::<u64>().max(st.states);
    if info.iter().any(|i| !i.3) {
        st.exhaustive = false;
        st.cap_hit = Some("state cap hit while enumerating a driver".into());
    }
    report.add(st);
    report
        .extra
        .insert("seed_range".into(), json!(format!("0..{seeds}")));
    report.extra.insert(
        "drivers_enumerated".into(),
        json!(info
            .iter()
            .map(|i| json!({"driver": i.0, "states": i.1, "transitions": i.2, "complete": i.3}))
            .collect::<Vec<_>>()),
    );
    report.assumptions = vec![
        format!("seeds are an explicit input, enumerated over 0..{seeds}; the variant coverage reached inside that range is reported in the notes"),
        "termination = every call returns within 10 s inside a worker subprocess; a dead or silent worker pins the state it was evaluating".into(),
        "ids whose reachable types contain a compact of something else than an unsigned integer / single-field wrapper (e.g. Compact<()>) are outside the quantifier and counted".into(),
    ];
    report.finish()
}

pub fn replay(v: &Json) -> Result<Vec<Violation>, String> {
    let mut ctx = Ctx::default();
    if v["check"] == "C12-hist" && !v["prev"].is_null() {
        // re-establish the history: the previous state first (its findings are not this replay's subject)
        worker_check(&v["prev"], &mut Ctx::default());
    }
    worker_check(&v["state"], &mut ctx);
    Ok(ctx.violations)
}
