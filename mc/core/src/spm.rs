//! Source-program model (SPM): a small abstract syntax of Rust type definitions
//! with `#[derive(TypeInfo)]`, and the elaborator that reproduces what
//! `scale-info` 2.11 builds from them (DESIGN.md section 3).

use scale_info::{
    form::PortableForm, Field as SiField, Path as SiPath, PortableRegistry, PortableType,
    Type as SiType, TypeDef, TypeDefArray, TypeDefBitSequence, TypeDefCompact, TypeDefComposite,
    TypeDefPrimitive, TypeDefSequence, TypeDefTuple, TypeDefVariant, TypeParameter as SiTypeParam,
    Variant as SiVariant,
};
use serde::{Deserialize, Serialize};
use std::collections::HashMap;

#[derive(Clone, Copy, Debug, PartialEq, Eq, Hash, PartialOrd, Ord, Serialize, Deserialize)]
pub enum Prim {
    Bool,
    Char,
    Str,
    U8,
    U16,
    U32,
    U64,
    U128,
    I8,
    I16,
    I32,
    I64,
    I128,
}

impl Prim {
    pub const ALL: [Prim; 13] = [
        Prim::Bool,
        Prim::Char,
        Prim::Str,
        Prim::U8,
        Prim::U16,
        Prim::U32,
        Prim::U64,
        Prim::U128,
        Prim::I8,
        Prim::I16,
        Prim::I32,
        Prim::I64,
        Prim::I128,
    ];
    pub const INTS: [Prim; 10] = [
        Prim::U8,
        Prim::U16,
        Prim::U32,
        Prim::U64,
        Prim::U128,
        Prim::I8,
        Prim::I16,
        Prim::I32,
        Prim::I64,
        Prim::I128,
    ];
    pub fn rust_name(self) -> &'static str {
        match self {
            Prim::Bool => "bool",
            Prim::Char => "char",
            Prim::Str => "String",
            Prim::U8 => "u8",
            Prim::U16 => "u16",
            Prim::U32 => "u32",
            Prim::U64 => "u64",
            Prim::U128 => "u128",
            Prim::I8 => "i8",
            Prim::I16 => "i16",
            Prim::I32 => "i32",
            Prim::I64 => "i64",
            Prim::I128 => "i128",
        }
    }
    pub fn from_rust_name(s: &str) -> Option<Prim> {
        Prim::ALL
            .iter()
            .copied()
            .find(|p| p.rust_name() == s)
            .or(if s == "str" { Some(Prim::Str) } else { None })
    }
    pub fn to_si(self) -> TypeDefPrimitive {
        match self {
            Prim::Bool => TypeDefPrimitive::Bool,
            Prim::Char => TypeDefPrimitive::Char,
            Prim::Str => TypeDefPrimitive::Str,
            Prim::U8 => TypeDefPrimitive::U8,
            Prim::U16 => TypeDefPrimitive::U16,
            Prim::U32 => TypeDefPrimitive::U32,
            Prim::U64 => TypeDefPrimitive::U64,
            Prim::U128 => TypeDefPrimitive::U128,
            Prim::I8 => TypeDefPrimitive::I8,
            Prim::I16 => TypeDefPrimitive::I16,
            Prim::I32 => TypeDefPrimitive::I32,
            Prim::I64 => TypeDefPrimitive::I64,
            Prim::I128 => TypeDefPrimitive::I128,
        }
    }
    pub fn is_unsigned(self) -> bool {
        matches!(
            self,
            Prim::U8 | Prim::U16 | Prim::U32 | Prim::U64 | Prim::U128
        )
    }
    pub fn nonzero_name(self) -> String {
        format!("NonZero{}", self.rust_name().to_uppercase())
    }
}

#[derive(Clone, Debug, PartialEq, Eq, Hash, PartialOrd, Ord, Serialize, Deserialize)]
pub enum Ty {
    Prim(Prim),
    /// the i-th declared generic parameter of the enclosing definition
    Param(usize),
    /// `P::Inner` for the i-th declared parameter (a `Config`-style bound)
    Assoc(usize),
    /// user definition (index into `Program::defs`) applied to arguments
    Named(usize, Vec<Ty>),
    Vec(Box<Ty>),
    VecDeque(Box<Ty>),
    Array(Box<Ty>, u32),
    Tuple(Vec<Ty>),
    Option(Box<Ty>),
    Result(Box<Ty>, Box<Ty>),
    Box(Box<Ty>),
    CowStr,
    CowBytes,
    /// `Cow<'static, T>` for a sized `T: Clone` (a user type, `Option<..>`, ...)
    Cow(Box<Ty>),
    BTreeMap(Box<Ty>, Box<Ty>),
    BTreeSet(Box<Ty>),
    BinaryHeap(Box<Ty>),
    Range(Box<Ty>),
    RangeInclusive(Box<Ty>),
    NonZero(Prim),
    Duration,
    Compact(Box<Ty>),
    /// BitVec<store, order>; `true` = Msb0
    BitVec(Prim, bool),
    /// BitVec<S, O> with arbitrary type expressions (generic parameters) as store and order
    BitVecG(Box<Ty>, Box<Ty>),
    /// the bit-order marker type `bitvec::order::{Lsb0, Msb0}` as a type expression; `true` = Msb0
    Order(bool),
    Phantom(Box<Ty>),
}

#[derive(Clone, Debug, PartialEq, Eq, Hash, PartialOrd, Ord, Serialize, Deserialize)]
pub struct Param {
    pub name: String,
    /// `#[scale_info(skip_type_params(..))]`
    pub skipped: bool,
}

#[derive(Clone, Debug, PartialEq, Eq, Hash, PartialOrd, Ord, Serialize, Deserialize)]
pub struct Field {
    pub ty: Ty,
    /// `#[codec(compact)]`
    pub compact: bool,
    pub docs: Vec<String>,
}

impl Field {
    pub fn new(ty: Ty) -> Field {
        Field {
            ty,
            compact: false,
            docs: vec![],
        }
    }
    pub fn compact(ty: Ty) -> Field {
        Field {
            ty,
            compact: true,
            docs: vec![],
        }
    }
}

#[derive(Clone, Debug, PartialEq, Eq, Hash, PartialOrd, Ord, Serialize, Deserialize)]
pub enum Fields {
    Unit,
    Named(Vec<(String, Field)>),
    Unnamed(Vec<Field>),
}

impl Fields {
    pub fn iter(&self) -> Box<dyn Iterator<Item = (Option<&str>, &Field)> + '_> {
        match self {
            Fields::Unit => Box::new(std::iter::empty()),
            Fields::Named(v) => Box::new(v.iter().map(|(n, f)| (Some(n.as_str()), f))),
            Fields::Unnamed(v) => Box::new(v.iter().map(|f| (None, f))),
        }
    }
    pub fn len(&self) -> usize {
        self.iter().count()
    }
}

#[derive(Clone, Debug, PartialEq, Eq, Hash, PartialOrd, Ord, Serialize, Deserialize)]
pub struct Variant {
    pub name: String,
    /// explicit `#[codec(index = n)]`
    pub index: Option<u8>,
    pub fields: Fields,
    pub docs: Vec<String>,
}

#[derive(Clone, Debug, PartialEq, Eq, Hash, PartialOrd, Ord, Serialize, Deserialize)]
pub enum Body {
    Struct(Fields),
    Enum(Vec<Variant>),
}

#[derive(Clone, Debug, PartialEq, Eq, Hash, PartialOrd, Ord, Serialize, Deserialize)]
pub struct Def {
    /// module path (crate name first); must be non-empty
    pub module: Vec<String>,
    pub name: String,
    pub params: Vec<Param>,
    pub body: Body,
    pub docs: Vec<String>,
    /// `impl Config for Self { type Inner = <ty>; }` (closed type)
    pub assoc: Option<Ty>,
}

impl Def {
    pub fn strukt(module: &[&str], name: &str, params: &[&str], fields: Fields) -> Def {
        Def {
            module: module.iter().map(|s| s.to_string()).collect(),
            name: name.to_string(),
            params: params
                .iter()
                .map(|p| Param {
                    name: p.to_string(),
                    skipped: false,
                })
                .collect(),
            body: Body::Struct(fields),
            docs: vec![],
            assoc: None,
        }
    }
    pub fn enm(module: &[&str], name: &str, params: &[&str], variants: Vec<Variant>) -> Def {
        Def {
            body: Body::Enum(variants),
            ..Def::strukt(module, name, params, Fields::Unit)
        }
    }
    pub fn path(&self) -> Vec<String> {
        let mut p = self.module.clone();
        p.push(self.name.clone());
        p
    }
    pub fn all_fields(&self) -> Vec<&Field> {
        match &self.body {
            Body::Struct(f) => f.iter().map(|(_, f)| f).collect(),
            Body::Enum(vs) => vs
                .iter()
                .flat_map(|v| v.fields.iter().map(|(_, f)| f).collect::<Vec<_>>())
                .collect(),
        }
    }
}

pub fn variant(name: &str, fields: Fields) -> Variant {
    Variant {
        name: name.to_string(),
        index: None,
        fields,
        docs: vec![],
    }
}

#[derive(Clone, Debug, PartialEq, Eq, Hash, PartialOrd, Ord, Serialize, Deserialize, Default)]
pub struct Program {
    pub defs: Vec<Def>,
    /// closed types, registered in this order
    pub roots: Vec<Ty>,
}

// ---------------------------------------------------------------------------
// Surface syntax

impl Program {
    /// The source type expression, as written inside definition `ctx` (for parameter names).
    pub fn ty_src(&self, ty: &Ty, ctx: Option<&Def>) -> String {
        let s = |t: &Ty| self.ty_src(t, ctx);
        match ty {
            Ty::Prim(p) => p.rust_name().to_string(),
            Ty::Param(i) => match ctx {
                Some(d) => d.params[*i].name.clone(),
                None => format!("?P{i}"),
            },
            Ty::Assoc(i) => match ctx {
                Some(d) => format!("{}::Inner", d.params[*i].name),
                None => format!("?P{i}::Inner"),
            },
            Ty::Named(d, args) => {
                let name = &self.defs[*d].name;
                if args.is_empty() {
                    name.clone()
                } else {
                    format!(
                        "{}<{}>",
                        name,
                        args.iter().map(s).collect::<Vec<_>>().join(", ")
                    )
                }
            }
            Ty::Vec(t) => format!("Vec<{}>", s(t)),
            Ty::VecDeque(t) => format!("VecDeque<{}>", s(t)),
            Ty::Array(t, n) => format!("[{}; {}]", s(t), n),
            Ty::Tuple(ts) => {
                if ts.len() == 1 {
                    format!("({},)", s(&ts[0]))
                } else {
                    format!("({})", ts.iter().map(s).collect::<Vec<_>>().join(", "))
                }
            }
            Ty::Option(t) => format!("Option<{}>", s(t)),
            Ty::Result(a, b) => format!("Result<{}, {}>", s(a), s(b)),
            Ty::Box(t) => format!("Box<{}>", s(t)),
            Ty::CowStr => "Cow<'static, str>".to_string(),
            Ty::CowBytes => "Cow<'static, [u8]>".to_string(),
            Ty::Cow(t) => format!("Cow<'static, {}>", s(t)),
            Ty::BTreeMap(k, v) => format!("BTreeMap<{}, {}>", s(k), s(v)),
            Ty::BTreeSet(t) => format!("BTreeSet<{}>", s(t)),
            Ty::BinaryHeap(t) => format!("BinaryHeap<{}>", s(t)),
            Ty::Range(t) => format!("Range<{}>", s(t)),
            Ty::RangeInclusive(t) => format!("RangeInclusive<{}>", s(t)),
            Ty::NonZero(p) => p.nonzero_name(),
            Ty::Duration => "Duration".to_string(),
            Ty::Compact(t) => format!("Compact<{}>", s(t)),
            Ty::BitVec(st, msb) => format!(
                "BitVec<{}, {}>",
                st.rust_name(),
                if *msb { "Msb0" } else { "Lsb0" }
            ),
            Ty::Phantom(t) => format!("PhantomData<{}>", s(t)),
            Ty::BitVecG(st, o) => format!("BitVec<{}, {}>", s(st), s(o)),
            Ty::Order(msb) => if *msb { "Msb0" } else { "Lsb0" }.to_string(),
        }
    }

    /// Pretty-print the program as Rust source (for evidence samples and replay files).
    pub fn to_source(&self) -> String {
        let mut out = String::new();
        for d in &self.defs {
            out.push_str(&format!("// mod {}\n", d.module.join("::")));
            for doc in &d.docs {
                out.push_str(&format!("/// {doc}\n"));
            }
            let skipped: Vec<&str> = d
                .params
                .iter()
                .filter(|p| p.skipped)
                .map(|p| p.name.as_str())
                .collect();
            if !skipped.is_empty() {
                out.push_str(&format!(
                    "#[scale_info(skip_type_params({}))]\n",
                    skipped.join(", ")
                ));
            }
            let generics = if d.params.is_empty() {
                String::new()
            } else {
                format!(
                    "<{}>",
                    d.params
                        .iter()
                        .map(|p| p.name.clone())
                        .collect::<Vec<_>>()
                        .join(", ")
                )
            };
            let fields_src = |f: &Fields, top: bool| -> String {
                match f {
                    Fields::Unit => if top { ";" } else { "" }.to_string(),
                    Fields::Named(fs) => format!(
                        " {{ {} }}",
                        fs.iter()
                            .map(|(n, f)| format!(
                                "{}{}: {}",
                                if f.compact { "#[codec(compact)] " } else { "" },
                                n,
                                self.ty_src(&f.ty, Some(d))
                            ))
                            .collect::<Vec<_>>()
                            .join(", ")
                    ),
                    Fields::Unnamed(fs) => format!(
                        "({}){}",
                        fs.iter()
                            .map(|f| format!(
                                "{}{}",
                                if f.compact { "#[codec(compact)] " } else { "" },
                                self.ty_src(&f.ty, Some(d))
                            ))
                            .collect::<Vec<_>>()
                            .join(", "),
                        if top { ";" } else { "" }
                    ),
                }
            };
            match &d.body {
                Body::Struct(f) => {
                    out.push_str(&format!(
                        "struct {}{}{}\n",
                        d.name,
                        generics,
                        fields_src(f, true)
                    ));
                }
                Body::Enum(vs) => {
                    out.push_str(&format!("enum {}{} {{ ", d.name, generics));
                    for v in vs {
                        if let Some(i) = v.index {
                            out.push_str(&format!("#[codec(index = {i})] "));
                        }
                        out.push_str(&format!("{}{}, ", v.name, fields_src(&v.fields, false)));
                    }
                    out.push_str("}\n");
                }
            }
            if let Some(a) = &d.assoc {
                out.push_str(&format!(
                    "impl Config for {} {{ type Inner = {}; }}\n",
                    d.name,
                    self.ty_src(a, None)
                ));
            }
        }
        out.push_str(&format!(
            "// roots: {}\n",
            self.roots
                .iter()
                .map(|r| self.ty_src(r, None))
                .collect::<Vec<_>>()
                .join(", ")
        ));
        out
    }
}

/// `scale-info-derive`'s normalisation of `quote!(#ty).to_string()`.
thread_local! {
    static QUALIFIED_COMPACT: std::cell::Cell<bool> = const { std::cell::Cell::new(false) };
}

/// Elaborate with `Compact<..>` spelled `codec::Compact<..>` in the written type names (a spelling variant of the
/// source program; ids and shapes are the same).
pub fn with_qualified_compact<T>(on: bool, f: impl FnOnce() -> T) -> T {
    let before = QUALIFIED_COMPACT.with(|q| q.replace(on));
    let r = f();
    QUALIFIED_COMPACT.with(|q| q.set(before));
    r
}

pub fn clean_type_string(input: &str) -> String {
    input
        .replace(" ::", "::")
        .replace(":: ", "::")
        .replace(" ,", ",")
        .replace(" ;", ";")
        .replace(" [", "[")
        .replace("[ ", "[")
        .replace(" ]", "]")
        .replace(" (", "(")
        .replace(",(", ", (")
        .replace("( ", "(")
        .replace(" )", ")")
        .replace(" <", "<")
        .replace("< ", "<")
        .replace(" >", ">")
        .replace("& '", "&'")
}

/// The `type_name` the derive records for a field whose source type prints as `src`.
pub fn type_name_of_src(src: &str) -> String {
    let ts: proc_macro2::TokenStream = src.parse().expect("type source tokenizes");
    clean_type_string(&ts.to_string())
}

// ---------------------------------------------------------------------------
// Elaborator

/// Options of the elaborator that go beyond what `scale-info 2.11.5` does.
#[derive(Clone, Copy, Debug, Default)]
pub struct ElabOpts {
    /// emit `VecDeque<T>` as a prelude composite `VecDeque` (one unnamed sequence field) instead of
    /// erasing it to a sequence. Not conformance-testable against scale-info 2.11.5.
    pub vecdeque_as_prelude: bool,
}

pub struct Elaborated {
    pub registry: PortableRegistry,
    /// ids of the program's roots, in order
    pub root_ids: Vec<u32>,
    /// for each registry id: the closed source type it was first registered as
    /// (order markers appear as `Ty::Order(msb)`)
    pub origin: Vec<Ty>,
}

struct Elab<'a> {
    prog: &'a Program,
    opts: ElabOpts,
    ids: HashMap<Key, u32>,
    types: Vec<Option<SiType<PortableForm>>>,
    origin: Vec<Ty>,
}

fn subst(ty: &Ty, args: &[Ty], prog: &Program) -> Ty {
    let s = |t: &Ty| Box::new(subst(t, args, prog));
    match ty {
        Ty::Param(i) => args[*i].clone(),
        Ty::Assoc(i) => match &args[*i] {
            Ty::Named(d, _) => prog.defs[*d]
                .assoc
                .clone()
                .expect("argument of a Config-bounded parameter implements Config"),
            other => panic!("Assoc of non-named argument {other:?}"),
        },
        Ty::Prim(_)
        | Ty::CowStr
        | Ty::CowBytes
        | Ty::NonZero(_)
        | Ty::Duration
        | Ty::BitVec(..)
        | Ty::Order(_) => ty.clone(),
        // a closed BitVec<store, order> is the same Rust type however it was written
        Ty::Cow(t) => Ty::Cow(s(t)),
        Ty::BitVecG(a, b) => match (*s(a), *s(b)) {
            (Ty::Prim(p), Ty::Order(m)) => Ty::BitVec(p, m),
            (x, y) => Ty::BitVecG(Box::new(x), Box::new(y)),
        },
        Ty::Named(d, a) => Ty::Named(*d, a.iter().map(|t| subst(t, args, prog)).collect()),
        Ty::Vec(t) => Ty::Vec(s(t)),
        Ty::VecDeque(t) => Ty::VecDeque(s(t)),
        Ty::Array(t, n) => Ty::Array(s(t), *n),
        Ty::Tuple(ts) => Ty::Tuple(ts.iter().map(|t| subst(t, args, prog)).collect()),
        Ty::Option(t) => Ty::Option(s(t)),
        Ty::Result(a, b) => Ty::Result(s(a), s(b)),
        Ty::Box(t) => Ty::Box(s(t)),
        Ty::BTreeMap(a, b) => Ty::BTreeMap(s(a), s(b)),
        Ty::BTreeSet(t) => Ty::BTreeSet(s(t)),
        Ty::BinaryHeap(t) => Ty::BinaryHeap(s(t)),
        Ty::Range(t) => Ty::Range(s(t)),
        Ty::RangeInclusive(t) => Ty::RangeInclusive(s(t)),
        Ty::Compact(t) => Ty::Compact(s(t)),
        Ty::Phantom(t) => Ty::Phantom(s(t)),
    }
}

/// Public so that drivers can substitute arguments into field types.
pub fn substitute(ty: &Ty, args: &[Ty], prog: &Program) -> Ty {
    subst(ty, args, prog)
}

/// The key under which scale-info interns a type: `TypeId::of::<T::Identity>()`. Identity is
/// applied ONE step only: `Box<Vec<u8>>` is interned as `Vec<u8>` (not as `[u8]`), so it is an
/// entry of its own next to the one for `Vec<u8>` (interned as `[u8]`), with equal content.
#[derive(Clone, Debug, PartialEq, Eq, Hash)]
pub enum Key {
    Raw(Ty),
    Slice(Ty),
    StrSlice,
    Phantom,
}

pub fn key_of(ty: &Ty, opts: ElabOpts) -> Key {
    match ty {
        Ty::Box(t) => Key::Raw((**t).clone()),
        Ty::Vec(t) => Key::Slice((**t).clone()),
        Ty::VecDeque(t) if !opts.vecdeque_as_prelude => Key::Slice((**t).clone()),
        Ty::Prim(Prim::Str) => Key::StrSlice,
        Ty::Phantom(_) => Key::Phantom,
        other => Key::Raw(other.clone()),
    }
}

fn is_phantom(ty: &Ty) -> bool {
    match ty {
        Ty::Phantom(_) => true,
        Ty::Box(t) => is_phantom(t),
        _ => false,
    }
}

fn prelude_path(name: &str) -> SiPath<PortableForm> {
    SiPath {
        segments: vec![name.to_string()],
    }
}

fn tp(name: &str, id: u32) -> SiTypeParam<PortableForm> {
    SiTypeParam {
        name: name.to_string(),
        ty: Some(id.into()),
    }
}

fn field(
    name: Option<&str>,
    id: u32,
    type_name: Option<&str>,
    docs: &[String],
) -> SiField<PortableForm> {
    SiField {
        name: name.map(|s| s.to_string()),
        ty: id.into(),
        type_name: type_name.map(|s| s.to_string()),
        docs: docs.to_vec(),
    }
}

impl<'a> Elab<'a> {
    fn register(&mut self, ty: &Ty) -> u32 {
        let key = key_of(ty, self.opts);
        if let Some(id) = self.ids.get(&key) {
            return *id;
        }
        let id = self.types.len() as u32;
        self.ids.insert(key.clone(), id);
        self.types.push(None);
        self.origin.push(ty.clone());
        let info = self.type_info(ty);
        self.types[id as usize] = Some(info);
        id
    }

    fn plain(def: impl Into<TypeDef<PortableForm>>) -> SiType<PortableForm> {
        SiType {
            path: SiPath { segments: vec![] },
            type_params: vec![],
            type_def: def.into(),
            docs: vec![],
        }
    }

    fn fields(&mut self, def: &Def, args: &[Ty], fields: &Fields) -> Vec<SiField<PortableForm>> {
        let prog = self.prog;
        let mut out = vec![];
        for (name, f) in fields.iter() {
            let closed = subst(&f.ty, args, prog);
            if is_phantom(&closed) {
                continue;
            }
            let mut type_name = type_name_of_src(&prog.ty_src(&f.ty, Some(def)));
            if QUALIFIED_COMPACT.with(|q| q.get()) {
                // the source spells the type with its crate path: `codec::Compact<T>` (the derive writes it as spelled)
                type_name = type_name.replace("Compact<", "codec::Compact<");
            }
            let id = if f.compact {
                self.register(&Ty::Compact(Box::new(closed)))
            } else {
                self.register(&closed)
            };
            out.push(field(name, id, Some(&type_name), &f.docs));
        }
        out
    }

    fn type_info(&mut self, ty: &Ty) -> SiType<PortableForm> {
        match ty {
            Ty::Prim(p) => Self::plain(p.to_si()),
            Ty::Param(_) | Ty::Assoc(_) => panic!("open type registered: {ty:?}"),
            Ty::Box(t) => self.type_info(t),
            Ty::Named(d, args) => {
                let prog = self.prog;
                let def = &prog.defs[*d];
                assert_eq!(def.params.len(), args.len(), "arity of {}", def.name);
                let type_params = def
                    .params
                    .iter()
                    .zip(args)
                    .map(|(p, a)| SiTypeParam {
                        name: p.name.clone(),
                        ty: if p.skipped {
                            None
                        } else {
                            Some(self.register(a).into())
                        },
                    })
                    .collect();
                let type_def: TypeDef<PortableForm> = match &def.body {
                    Body::Struct(f) => TypeDefComposite {
                        fields: self.fields(def, args, f),
                    }
                    .into(),
                    Body::Enum(vs) => {
                        let mut variants = vec![];
                        for (i, v) in vs.iter().enumerate() {
                            variants.push(SiVariant {
                                name: v.name.clone(),
                                fields: self.fields(def, args, &v.fields),
                                index: v.index.unwrap_or(i as u8),
                                docs: v.docs.clone(),
                            });
                        }
                        TypeDefVariant { variants }.into()
                    }
                };
                SiType {
                    path: SiPath {
                        segments: def.path(),
                    },
                    type_params,
                    type_def,
                    docs: def.docs.clone(),
                }
            }
            Ty::Vec(t) => {
                let id = self.register(t);
                Self::plain(TypeDefSequence {
                    type_param: id.into(),
                })
            }
            Ty::VecDeque(t) if !self.opts.vecdeque_as_prelude => {
                let id = self.register(t);
                Self::plain(TypeDefSequence {
                    type_param: id.into(),
                })
            }
            Ty::VecDeque(t) => {
                // only with opts.vecdeque_as_prelude
                let tid = self.register(t);
                let seq = self.register(&Ty::Vec(t.clone()));
                SiType {
                    path: prelude_path("VecDeque"),
                    type_params: vec![tp("T", tid)],
                    type_def: TypeDefComposite {
                        fields: vec![field(None, seq, None, &[])],
                    }
                    .into(),
                    docs: vec![],
                }
            }
            Ty::Array(t, n) => {
                let id = self.register(t);
                Self::plain(TypeDefArray {
                    len: *n,
                    type_param: id.into(),
                })
            }
            Ty::Tuple(ts) => {
                let mut fields = vec![];
                for t in ts {
                    if is_phantom(t) {
                        continue;
                    }
                    fields.push(self.register(t).into());
                }
                Self::plain(TypeDefTuple { fields })
            }
            Ty::Option(t) => {
                let tid = self.register(t);
                let some_fields = if is_phantom(t) {
                    vec![]
                } else {
                    vec![field(None, tid, None, &[])]
                };
                SiType {
                    path: prelude_path("Option"),
                    type_params: vec![tp("T", tid)],
                    type_def: TypeDefVariant {
                        variants: vec![
                            SiVariant {
                                name: "None".into(),
                                fields: vec![],
                                index: 0,
                                docs: vec![],
                            },
                            SiVariant {
                                name: "Some".into(),
                                fields: some_fields,
                                index: 1,
                                docs: vec![],
                            },
                        ],
                    }
                    .into(),
                    docs: vec![],
                }
            }
            Ty::Result(a, b) => {
                let aid = self.register(a);
                let bid = self.register(b);
                let f = |t: &Ty, id: u32| {
                    if is_phantom(t) {
                        vec![]
                    } else {
                        vec![field(None, id, None, &[])]
                    }
                };
                SiType {
                    path: prelude_path("Result"),
                    type_params: vec![tp("T", aid), tp("E", bid)],
                    type_def: TypeDefVariant {
                        variants: vec![
                            SiVariant {
                                name: "Ok".into(),
                                fields: f(a, aid),
                                index: 0,
                                docs: vec![],
                            },
                            SiVariant {
                                name: "Err".into(),
                                fields: f(b, bid),
                                index: 1,
                                docs: vec![],
                            },
                        ],
                    }
                    .into(),
                    docs: vec![],
                }
            }
            Ty::Cow(t) => {
                let id = self.register(t);
                SiType {
                    path: prelude_path("Cow"),
                    type_params: vec![tp("T", id)],
                    type_def: TypeDefComposite {
                        fields: vec![field(None, id, None, &[])],
                    }
                    .into(),
                    docs: vec![],
                }
            }
            Ty::CowStr | Ty::CowBytes => {
                let inner = if *ty == Ty::CowStr {
                    Ty::Prim(Prim::Str)
                } else {
                    Ty::Vec(Box::new(Ty::Prim(Prim::U8)))
                };
                let id = self.register(&inner);
                SiType {
                    path: prelude_path("Cow"),
                    type_params: vec![tp("T", id)],
                    type_def: TypeDefComposite {
                        fields: vec![field(None, id, None, &[])],
                    }
                    .into(),
                    docs: vec![],
                }
            }
            Ty::BTreeMap(k, v) => {
                let kid = self.register(k);
                let vid = self.register(v);
                let seq = self.register(&Ty::Vec(Box::new(Ty::Tuple(vec![
                    (**k).clone(),
                    (**v).clone(),
                ]))));
                SiType {
                    path: prelude_path("BTreeMap"),
                    type_params: vec![tp("K", kid), tp("V", vid)],
                    type_def: TypeDefComposite {
                        fields: vec![field(None, seq, None, &[])],
                    }
                    .into(),
                    docs: vec![],
                }
            }
            Ty::BTreeSet(t) | Ty::BinaryHeap(t) => {
                let name = if matches!(ty, Ty::BTreeSet(_)) {
                    "BTreeSet"
                } else {
                    "BinaryHeap"
                };
                let tid = self.register(t);
                let seq = self.register(&Ty::Vec(t.clone()));
                SiType {
                    path: prelude_path(name),
                    type_params: vec![tp("T", tid)],
                    type_def: TypeDefComposite {
                        fields: vec![field(None, seq, None, &[])],
                    }
                    .into(),
                    docs: vec![],
                }
            }
            Ty::Range(t) | Ty::RangeInclusive(t) => {
                let name = if matches!(ty, Ty::Range(_)) {
                    "Range"
                } else {
                    "RangeInclusive"
                };
                let tid = self.register(t);
                SiType {
                    path: prelude_path(name),
                    type_params: vec![tp("Idx", tid)],
                    type_def: TypeDefComposite {
                        fields: vec![
                            field(Some("start"), tid, Some("Idx"), &[]),
                            field(Some("end"), tid, Some("Idx"), &[]),
                        ],
                    }
                    .into(),
                    docs: vec![],
                }
            }
            Ty::NonZero(p) => {
                let id = self.register(&Ty::Prim(*p));
                SiType {
                    path: prelude_path(&p.nonzero_name()),
                    type_params: vec![],
                    type_def: TypeDefComposite {
                        fields: vec![field(None, id, None, &[])],
                    }
                    .into(),
                    docs: vec![],
                }
            }
            Ty::Duration => {
                let a = self.register(&Ty::Prim(Prim::U64));
                let b = self.register(&Ty::Prim(Prim::U32));
                SiType {
                    path: prelude_path("Duration"),
                    type_params: vec![],
                    type_def: TypeDefComposite {
                        fields: vec![
                            field(None, a, Some("u64"), &[]),
                            field(None, b, Some("u32"), &[]),
                        ],
                    }
                    .into(),
                    docs: vec![],
                }
            }
            Ty::Compact(t) => {
                let id = self.register(t);
                Self::plain(TypeDefCompact {
                    type_param: id.into(),
                })
            }
            Ty::BitVecG(store, order) => {
                let s = self.register(store);
                let o = self.register(order);
                Self::plain(TypeDefBitSequence {
                    bit_store_type: s.into(),
                    bit_order_type: o.into(),
                })
            }
            Ty::Order(msb) => SiType {
                path: SiPath {
                    segments: vec![
                        "bitvec".into(),
                        "order".into(),
                        if *msb { "Msb0" } else { "Lsb0" }.into(),
                    ],
                },
                type_params: vec![],
                type_def: TypeDefComposite { fields: vec![] }.into(),
                docs: vec![],
            },
            Ty::BitVec(store, msb) => {
                let s = self.register(&Ty::Prim(*store));
                let o = self.register_order(*msb);
                Self::plain(TypeDefBitSequence {
                    bit_store_type: s.into(),
                    bit_order_type: o.into(),
                })
            }
            Ty::Phantom(_) => SiType {
                path: prelude_path("PhantomData"),
                type_params: vec![],
                type_def: TypeDefComposite { fields: vec![] }.into(),
                docs: vec!["PhantomData placeholder, this type should be filtered out".into()],
            },
        }
    }

    fn register_order(&mut self, msb: bool) -> u32 {
        self.register(&Ty::Order(msb))
    }
}

pub fn elaborate_with(prog: &Program, opts: ElabOpts) -> Elaborated {
    let mut e = Elab {
        prog,
        opts,
        ids: HashMap::new(),
        types: vec![],
        origin: vec![],
    };
    let root_ids = prog.roots.iter().map(|r| e.register(r)).collect();
    let types = e
        .types
        .into_iter()
        .enumerate()
        .map(|(i, t)| PortableType {
            id: i as u32,
            ty: t.expect("all registered types completed"),
        })
        .collect();
    Elaborated {
        registry: PortableRegistry { types },
        root_ids,
        origin: e.origin,
    }
}

pub fn elaborate(prog: &Program) -> Elaborated {
    elaborate_with(prog, ElabOpts::default())
}
