pub mod corpus;
pub mod spm;

pub fn main_entry(hooks: bool) {
    let _ = hooks;
    match corpus::check_conformance() {
        Ok(c) => println!("conformance ok: {c:?}"),
        Err(e) => {
            eprintln!("{e}");
            std::process::exit(2)
        }
    }
}
