pub mod checks;
pub mod corpus;
pub mod drivers;
pub mod engine;
pub mod families;
pub mod farm;
pub mod graph;
pub mod interp;
pub mod refenc;
pub mod run;
pub mod sched;
pub mod settings;
pub mod shape;
pub mod spm;

use serde_json::Value;

fn machinery(msg: &str) -> ! {
    eprintln!("machinery error: {msg}");
    std::process::exit(2)
}

extern "C" {
    fn mallopt(param: i32, value: i32) -> i32;
}

/// glibc malloc returns big blocks to the kernel eagerly; the checks allocate and free
/// multi-100-KB token strings millions of times, which then costs more system than user time.
fn tune_allocator() {
    unsafe {
        mallopt(-1, 1 << 30); // M_TRIM_THRESHOLD
        mallopt(-3, 1 << 30); // M_MMAP_THRESHOLD
        mallopt(-2, 64 << 20); // M_TOP_PAD
    }
}

pub fn main_entry(hooks: bool) {
    tune_allocator();
    // anyhow captures a backtrace (behind a global lock) for every error when backtraces are on;
    // the description checks create errors by the million (recursive types)
    std::env::set_var("RUST_LIB_BACKTRACE", "0");
    let args: Vec<String> = std::env::args().skip(1).collect();
    if args.is_empty() {
        machinery(
            "usage: mc check <ID> [--tier quick|thorough] | mc replay <file> | mc conformance",
        );
    }
    run::install_quiet_panic_hook();
    let _ = hooks;
    match args[0].as_str() {
        "conformance" => match corpus::check_conformance() {
            Ok(c) => println!("conformance ok: {c:?}"),
            Err(e) => machinery(&e),
        },
        "observe" => checks::c06::observe_main(),
        "roundtrip-tier" => match checks::c01::roundtrip_tier() {
            Ok(st) => {
                println!(
                    "{} modules, {} decodes, {} violation signatures, {:.1}s",
                    st.states,
                    st.executed,
                    st.violations.len(),
                    st.wall_s
                );
                for v in st.violations {
                    println!("{}\n   {}", v.sig, &v.detail[..v.detail.len().min(900)]);
                }
            }
            Err(e) => machinery(&e),
        },
        "c18-tier" => match checks::c18::roundtrip_tier() {
            Ok(st) => {
                println!(
                    "{} modules, {} decodes, {} violation signatures, {:.1}s",
                    st.states,
                    st.executed,
                    st.violations.len(),
                    st.wall_s
                );
                for v in st.violations {
                    println!("{}\n   {}", v.sig, &v.detail[..v.detail.len().min(900)]);
                }
            }
            Err(e) => machinery(&e),
        },
        "compile-tier" => match checks::c02::compile_tier(0, false) {
            Ok(st) => {
                println!(
                    "{} modules, {} violation signatures, {:.1}s",
                    st.states,
                    st.violations.len(),
                    st.wall_s
                );
                for v in st.violations {
                    println!("{}\n   {}", v.sig, &v.detail[..v.detail.len().min(700)]);
                }
            }
            Err(e) => machinery(&e),
        },
        "worker" => {
            let name = args.get(1).cloned().unwrap_or_default();
            checks::worker(&name).unwrap_or_else(|| machinery(&format!("unknown worker {name}")));
        }
        "gen-src" => {
            // debugging aid: `mc gen-src <file.rs> [--dedup]`: Rust definitions (the syntax of the conformance
            // corpus, with a `roots!(A, B<u8>);` line) -> SPM -> registry -> generated module
            let src = std::fs::read_to_string(args.get(1).map(|s| s.as_str()).unwrap_or(""))
                .unwrap_or_else(|e| machinery(&format!("read: {e}")));
            let (mut prog, roots) = corpus::parse_corpus(&src, &["k"]);
            prog.roots = roots.into_iter().map(|r| r.1).collect();
            let mut reg = spm::elaborate(&prog).registry;
            if args.iter().any(|a| a == "--dedup") {
                println!(
                    "dedup: {:?}",
                    scale_typegen::utils::ensure_unique_type_paths(&mut reg)
                        .map_err(|e| e.to_string())
                );
            }
            for t in &reg.types {
                println!(
                    "// {} {} {:?}",
                    t.id,
                    t.ty.path.segments.join("::"),
                    t.ty.type_params
                        .iter()
                        .map(|p| (p.name.clone(), p.ty.map(|x| x.id)))
                        .collect::<Vec<_>>()
                );
            }
            let spec = settings::SettingsSpec::faithful();
            match run::generate(&reg, &spec.build()) {
                run::GenOutcome::Ok { tokens } => println!("{tokens}"),
                other => println!("{other:?}"),
            }
            for id in 0..reg.types.len() as u32 {
                println!(
                    "// description {id}: {:?}",
                    run::guarded(
                        || scale_typegen_description::type_description(id, &reg, false)
                            .map_err(|e| e.to_string())
                    )
                );
                println!(
                    "// rust value {id}: {:?}",
                    run::guarded(|| scale_typegen_description::rust_value_from_seed(
                        id,
                        &reg,
                        &spec.build(),
                        1,
                        None,
                        None
                    )
                    .map(|t| t.to_string())
                    .map_err(|e| e.to_string()))
                );
            }
        }
        "gen-polkadot" => {
            // debugging aid: hash of de-duplicated + generated Polkadot module
            let mut r = run::polkadot_registry();
            scale_typegen::utils::ensure_unique_type_paths(&mut r).unwrap();
            let paths: Vec<String> = r
                .types
                .iter()
                .map(|t| t.ty.path.segments.join("::"))
                .collect();
            let spec = settings::SettingsSpec::faithful();
            match run::generate(&r, &spec.build()) {
                run::GenOutcome::Ok { tokens } => println!(
                    "tokens {} hash {:016x} paths {:016x}",
                    tokens.len(),
                    engine::hash64(&tokens),
                    engine::hash64(&paths)
                ),
                other => println!("{other:?}"),
            }
        }
        "check" => {
            let id = args.get(1).cloned().unwrap_or_default();
            let (tier, seed) = engine::tier_and_seed(&args);
            if let Err(e) = corpus::check_conformance() {
                machinery(&e);
            }
            // Supervise: the exploration runs in a child process. The code under test is in-process
            // there; if it overflows the stack or aborts, the child dies by a signal, which
            // `catch_unwind` cannot turn into a verdict. That is reported here as a violation
            // (the checks that are about termination additionally pin the state with worker
            // subprocesses).
            if std::env::var("VERIF_INNER").is_err() {
                let exe = std::env::current_exe()
                    .unwrap_or_else(|e| machinery(&format!("current exe: {e}")));
                let status = std::process::Command::new(exe)
                    .args(&args)
                    .env("VERIF_INNER", "1")
                    .status()
                    .unwrap_or_else(|e| {
                        machinery(&format!("cannot start the exploration process: {e}"))
                    });
                match status.code() {
                    // 101 = an uncaught panic: every call into the code under test is caught, so this is a bug of
                    // the machinery, never a verdict
                    Some(101) => machinery("the exploration process panicked outside the code under test (see the message above)"),
                    Some(c) => std::process::exit(c),
                    None => {
                        use std::os::unix::process::ExitStatusExt;
                        let sig = status.signal().unwrap_or(0);
                        // SIGKILL / SIGTERM / SIGINT / SIGHUP come from outside (a memory limit, a time-out, the
                        // user), not from the code under test: a machinery exit, never a verdict
                        if matches!(sig, 9 | 15 | 2 | 1) {
                            machinery(&format!(
                                "the exploration process was killed from outside (signal {sig}: memory limit or time-out?); no verdict"
                            ));
                        }
                        let dir = engine::verif_root().join("replays").join(&id);
                        let _ = std::fs::create_dir_all(&dir);
                        let path = dir.join("crash.json");
                        let _ = std::fs::write(
                            &path,
                            serde_json::to_string_pretty(&serde_json::json!({
                                "property": id,
                                "signature": format!("{id}/crash/signal-{sig}"),
                                "detail": format!("the exploration process was killed by signal {sig} while running the code under test in-process (stack overflow / abort in scale-typegen on one of the explored states); re-run `mc check {id} --tier {tier}` to reproduce"),
                                "replay": {"check": "crash", "id": id, "tier": tier},
                            }))
                            .unwrap(),
                        );
                        println!("VIOLATION property={id} replay={}", path.display());
                        eprintln!("  signature: {id}/crash/signal-{sig}");
                        std::process::exit(1)
                    }
                }
            }
            let code = checks::run_check(&id, &tier, seed)
                .unwrap_or_else(|| machinery(&format!("unknown property {id}")));
            std::process::exit(code)
        }
        "replay" => {
            let path = args.get(1).cloned().unwrap_or_default();
            let text = std::fs::read_to_string(&path)
                .unwrap_or_else(|e| machinery(&format!("{path}: {e}")));
            let v: Value =
                serde_json::from_str(&text).unwrap_or_else(|e| machinery(&format!("{path}: {e}")));
            let prop = v["property"].as_str().unwrap_or("").to_string();
            let replay = &v["replay"];
            let sigs =
                |v: &Vec<engine::Violation>| v.iter().map(|x| x.sig.clone()).collect::<Vec<_>>();
            let vs = checks::replay(replay).unwrap_or_else(|e| machinery(&e));
            let again = checks::replay(replay).unwrap_or_else(|e| machinery(&e));
            if sigs(&vs) != sigs(&again) {
                machinery("replay is not deterministic");
            }
            if vs.is_empty() {
                println!("replay: no violation (property {prop} holds on this case)");
                std::process::exit(0)
            }
            for x in &vs {
                println!("VIOLATION property={prop} replay={path}");
                eprintln!("  signature: {}\n  {}", x.sig, x.detail);
            }
            std::process::exit(1)
        }
        other => machinery(&format!("unknown command {other}")),
    }
}
