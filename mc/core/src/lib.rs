pub mod checks;
pub mod corpus;
pub mod drivers;
pub mod engine;
pub mod interp;
pub mod run;
pub mod settings;
pub mod shape;
pub mod spm;

use serde_json::Value;

fn machinery(msg: &str) -> ! {
    eprintln!("machinery error: {msg}");
    std::process::exit(2)
}

pub fn main_entry(hooks: bool) {
    let args: Vec<String> = std::env::args().skip(1).collect();
    if args.is_empty() {
        machinery("usage: mc check <ID> [--tier quick|thorough] | mc replay <file> | mc conformance");
    }
    run::install_quiet_panic_hook();
    let _ = hooks;
    match args[0].as_str() {
        "conformance" => match corpus::check_conformance() {
            Ok(c) => println!("conformance ok: {c:?}"),
            Err(e) => machinery(&e),
        },
        "check" => {
            let id = args.get(1).cloned().unwrap_or_default();
            let (tier, seed) = engine::tier_and_seed(&args);
            if let Err(e) = corpus::check_conformance() {
                machinery(&e);
            }
            let code = match id.as_str() {
                "C01" => checks::c01::run(&tier, seed),
                other => machinery(&format!("unknown property {other}")),
            };
            std::process::exit(code)
        }
        "replay" => {
            let path = args.get(1).cloned().unwrap_or_default();
            let text = std::fs::read_to_string(&path).unwrap_or_else(|e| machinery(&format!("{path}: {e}")));
            let v: Value = serde_json::from_str(&text).unwrap_or_else(|e| machinery(&format!("{path}: {e}")));
            let prop = v["property"].as_str().unwrap_or("").to_string();
            let replay = &v["replay"];
            let vs = match replay["check"].as_str().unwrap_or("") {
                "C01" => {
                    let case: drivers::Case = serde_json::from_value(replay["case"].clone())
                        .unwrap_or_else(|e| machinery(&format!("case: {e}")));
                    // determinism of the replay itself
                    let a = checks::c01::replay(&case);
                    let b = checks::c01::replay(&case);
                    if a.iter().map(|x| &x.sig).collect::<Vec<_>>() != b.iter().map(|x| &x.sig).collect::<Vec<_>>() {
                        machinery("replay is not deterministic");
                    }
                    a
                }
                other => machinery(&format!("unknown replay kind {other}")),
            };
            if vs.is_empty() {
                println!("replay: no violation (property {prop} holds on this case)");
                std::process::exit(0)
            }
            for x in &vs {
                println!("VIOLATION property={prop} replay={path}");
                eprintln!("  signature: {}\n  {}", x.sig, x.detail);
            }
            std::process::exit(1)
        }
        other => machinery(&format!("unknown command {other}")),
    }
}
