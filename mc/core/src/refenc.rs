//! Reference encoder / value enumerator (DESIGN.md 4.3): all valid SCALE encodings of a registry
//! type whose values come from a small boundary-value domain, written from the SCALE specification.

use scale_info::{PortableRegistry, TypeDef, TypeDefPrimitive};

pub fn compact(n: u128) -> Vec<u8> {
    if n < 1 << 6 {
        vec![(n as u8) << 2]
    } else if n < 1 << 14 {
        (((n as u16) << 2) | 1).to_le_bytes().to_vec()
    } else if n < 1 << 30 {
        (((n as u32) << 2) | 2).to_le_bytes().to_vec()
    } else {
        let bytes = n.to_le_bytes();
        let len = 16 - bytes.iter().rev().take_while(|b| **b == 0).count();
        let len = len.max(4);
        let mut out = vec![(((len - 4) as u8) << 2) | 3];
        out.extend_from_slice(&bytes[..len]);
        out
    }
}

fn uint_values(bits: u32) -> Vec<u128> {
    let max = if bits == 128 {
        u128::MAX
    } else {
        (1u128 << bits) - 1
    };
    vec![0, 1, max]
}

/// values for a compact-encoded unsigned integer of the given width: one per length class that fits
fn compact_values(bits: u32) -> Vec<u128> {
    let max = if bits == 128 {
        u128::MAX
    } else {
        (1u128 << bits) - 1
    };
    let mut v = vec![0u128, 63, 64, 16383, 16384, (1 << 30) - 1, 1 << 30, max];
    v.retain(|x| *x <= max);
    v.dedup();
    v
}

fn prim_bits(p: &TypeDefPrimitive) -> Option<(u32, bool)> {
    Some(match p {
        TypeDefPrimitive::U8 => (8, false),
        TypeDefPrimitive::U16 => (16, false),
        TypeDefPrimitive::U32 => (32, false),
        TypeDefPrimitive::U64 => (64, false),
        TypeDefPrimitive::U128 => (128, false),
        TypeDefPrimitive::I8 => (8, true),
        TypeDefPrimitive::I16 => (16, true),
        TypeDefPrimitive::I32 => (32, true),
        TypeDefPrimitive::I64 => (64, true),
        TypeDefPrimitive::I128 => (128, true),
        _ => return None,
    })
}

pub struct Enumerator<'a> {
    pub reg: &'a PortableRegistry,
    /// cap on the number of encodings returned per type
    pub cap: usize,
}

impl<'a> Enumerator<'a> {
    /// None = this type is outside the enumerator's domain (char, bit sequences, 256-bit integers)
    pub fn encodings(&self, id: u32, depth: usize) -> Option<Vec<Vec<u8>>> {
        let ty = self.reg.resolve(id)?;
        let out: Vec<Vec<u8>> = match &ty.type_def {
            TypeDef::Primitive(p) => match p {
                TypeDefPrimitive::Bool => vec![vec![0], vec![1]],
                TypeDefPrimitive::Char => return None,
                TypeDefPrimitive::Str => {
                    let e = "é".as_bytes();
                    let mut s = compact(e.len() as u128);
                    s.extend_from_slice(e);
                    vec![vec![0], s]
                }
                TypeDefPrimitive::U256 | TypeDefPrimitive::I256 => return None,
                p => {
                    let (bits, signed) = prim_bits(p)?;
                    let n = (bits / 8) as usize;
                    if signed {
                        let min: i128 = if bits == 128 {
                            i128::MIN
                        } else {
                            -(1i128 << (bits - 1))
                        };
                        let max: i128 = if bits == 128 {
                            i128::MAX
                        } else {
                            (1i128 << (bits - 1)) - 1
                        };
                        [min, -1, 0, max]
                            .iter()
                            .map(|v| v.to_le_bytes()[..n].to_vec())
                            .collect()
                    } else {
                        uint_values(bits)
                            .iter()
                            .map(|v| v.to_le_bytes()[..n].to_vec())
                            .collect()
                    }
                }
            },
            TypeDef::Compact(c) => {
                // unsigned integer, a single-field wrapper of one, or ()
                let mut inner = c.type_param.id;
                let mut bits = None;
                for _ in 0..8 {
                    match self.reg.resolve(inner).map(|t| &t.type_def) {
                        Some(TypeDef::Primitive(p)) => {
                            bits = prim_bits(p).filter(|(_, s)| !*s).map(|(b, _)| b);
                            break;
                        }
                        Some(TypeDef::Composite(c)) if c.fields.len() == 1 => {
                            inner = c.fields[0].ty.id
                        }
                        Some(TypeDef::Tuple(t)) if t.fields.is_empty() => {
                            return Some(vec![vec![]])
                        }
                        _ => return None,
                    }
                }
                compact_values(bits?).into_iter().map(compact).collect()
            }
            TypeDef::Sequence(s) => {
                let mut out = vec![vec![0u8]];
                if depth > 0 {
                    let e = self.encodings(s.type_param.id, depth - 1)?;
                    if let Some(e0) = e.first() {
                        for x in e.iter().take(2) {
                            let mut v = compact(1);
                            v.extend_from_slice(x);
                            out.push(v);
                        }
                        let mut v = compact(2);
                        v.extend_from_slice(e0);
                        v.extend_from_slice(e.last().unwrap_or(e0));
                        out.push(v);
                    }
                } else {
                    // still make sure the element type is in the domain
                    self.encodings(s.type_param.id, 0)?;
                }
                out
            }
            TypeDef::Array(a) => {
                if a.len == 0 {
                    self.encodings(a.type_param.id, depth.saturating_sub(1))?;
                    vec![vec![]]
                } else {
                    let e = self.encodings(a.type_param.id, depth.saturating_sub(1))?;
                    e.iter().take(3).map(|x| x.repeat(a.len as usize)).collect()
                }
            }
            TypeDef::Tuple(t) => {
                self.product(&t.fields.iter().map(|f| f.id).collect::<Vec<_>>(), depth)?
            }
            TypeDef::Composite(c) => {
                let ids: Vec<u32> = c.fields.iter().map(|f| f.ty.id).collect();
                if depth == 0 && !ids.is_empty() {
                    // out of fuel: no value of a non-empty struct at this depth (recursion guard)
                    return Some(vec![]);
                }
                let mut v = self.product(&ids, depth)?;
                let name = ty.path.segments.last().map(|s| s.as_str()).unwrap_or("");
                if ty.path.segments.len() == 1 && name.starts_with("NonZero") {
                    v.retain(|e| e.iter().any(|b| *b != 0));
                }
                if ty.path.segments.len() == 1 && name == "Duration" {
                    // nanoseconds must be below 10^9
                    v.retain(|e| {
                        e.len() == 12
                            && u32::from_le_bytes([e[8], e[9], e[10], e[11]]) < 1_000_000_000
                    });
                }
                v
            }
            TypeDef::Variant(v) => {
                let mut out = vec![];
                for var in &v.variants {
                    let ids: Vec<u32> = var.fields.iter().map(|f| f.ty.id).collect();
                    if depth == 0 && !ids.is_empty() {
                        continue; // out of fuel: only field-less variants
                    }
                    let Some(p) = self.product(&ids, depth) else {
                        return None;
                    };
                    for e in p.into_iter().take(4) {
                        let mut x = vec![var.index];
                        x.extend(e);
                        out.push(x);
                    }
                }
                out
            }
            TypeDef::BitSequence(_) => return None,
        };
        let mut out = out;
        out.truncate(self.cap);
        Some(out)
    }

    /// "diagonal" product: the first encoding of every component, then one component varied at a time
    pub fn product(&self, ids: &[u32], depth: usize) -> Option<Vec<Vec<u8>>> {
        let mut per: Vec<Vec<Vec<u8>>> = vec![];
        for id in ids {
            let e = self.encodings(
                *id,
                depth.saturating_sub(if self.is_def(*id) { 1 } else { 0 }),
            )?;
            if e.is_empty() {
                return Some(vec![]); // no terminating value within the depth bound
            }
            per.push(e);
        }
        let base: Vec<u8> = per.iter().flat_map(|e| e[0].clone()).collect();
        let mut out = vec![base];
        for i in 0..per.len() {
            for alt in per[i].iter().skip(1) {
                let mut v = vec![];
                for (j, e) in per.iter().enumerate() {
                    v.extend_from_slice(if i == j { alt } else { &e[0] });
                }
                out.push(v);
            }
        }
        Some(out)
    }

    fn is_def(&self, id: u32) -> bool {
        matches!(
            self.reg.resolve(id).map(|t| &t.type_def),
            Some(TypeDef::Composite(_)) | Some(TypeDef::Variant(_))
        )
    }
}
