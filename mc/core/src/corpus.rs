//! Conformance of the environment model: `corpus/defs.rs` is compiled (real `scale-info`)
//! and also read as text, converted to SPM and elaborated; both must agree exactly.

use crate::spm::*;
use std::collections::BTreeSet;

#[path = "corpus/defs.rs"]
pub mod defs;

pub const DEFS_SRC: &str = include_str!("corpus/defs.rs");

struct Parser {
    prog: Program,
    /// (module path relative to file root, ident) per def, same index as prog.defs
    index: Vec<(Vec<String>, String)>,
    prefix: Vec<String>,
    impls: Vec<(String, syn::Type, Vec<String>)>,
}

fn has_derive_typeinfo(attrs: &[syn::Attribute]) -> bool {
    attrs.iter().any(|a| {
        a.path().is_ident("derive")
            && a.meta
                .require_list()
                .map(|l| l.tokens.to_string().contains("TypeInfo"))
                .unwrap_or(false)
    })
}

fn docs_of(attrs: &[syn::Attribute]) -> Vec<String> {
    attrs
        .iter()
        .filter_map(|a| {
            if !a.path().is_ident("doc") {
                return None;
            }
            let syn::Meta::NameValue(nv) = &a.meta else {
                return None;
            };
            let syn::Expr::Lit(syn::ExprLit {
                lit: syn::Lit::Str(s),
                ..
            }) = &nv.value
            else {
                return None;
            };
            let v = s.value();
            Some(v.strip_prefix(' ').unwrap_or(&v).to_string())
        })
        .collect()
}

fn codec_attr(attrs: &[syn::Attribute]) -> (bool, Option<u8>) {
    let mut compact = false;
    let mut index = None;
    for a in attrs {
        if a.path().is_ident("codec") {
            let t = a.meta.require_list().unwrap().tokens.to_string();
            if t.trim() == "compact" {
                compact = true;
            }
            if let Some(rest) = t.trim().strip_prefix("index") {
                index = Some(rest.trim().trim_start_matches('=').trim().parse().unwrap());
            }
        }
    }
    (compact, index)
}

fn skipped_params(attrs: &[syn::Attribute]) -> BTreeSet<String> {
    let mut out = BTreeSet::new();
    for a in attrs {
        if a.path().is_ident("scale_info") {
            let t = a.meta.require_list().unwrap().tokens.to_string();
            if let Some(rest) = t.trim().strip_prefix("skip_type_params") {
                for p in rest
                    .trim()
                    .trim_start_matches('(')
                    .trim_end_matches(')')
                    .split(',')
                {
                    out.insert(p.trim().to_string());
                }
            }
        }
    }
    out
}

impl Parser {
    fn collect_items(&mut self, items: &[syn::Item], module: &[String], pass: u8) {
        for it in items {
            match it {
                syn::Item::Mod(m) => {
                    if let Some((_, items)) = &m.content {
                        let mut sub = module.to_vec();
                        sub.push(m.ident.to_string());
                        self.collect_items(items, &sub, pass);
                    }
                }
                syn::Item::Struct(s) if has_derive_typeinfo(&s.attrs) => {
                    if pass == 0 {
                        self.declare(module, &s.ident, &s.generics, &s.attrs);
                    } else {
                        let idx = self.find_def(module, &s.ident.to_string());
                        let fields = self.fields(&s.fields, idx, module);
                        self.prog.defs[idx].body = Body::Struct(fields);
                    }
                }
                syn::Item::Enum(e) if has_derive_typeinfo(&e.attrs) => {
                    if pass == 0 {
                        self.declare(module, &e.ident, &e.generics, &e.attrs);
                    } else {
                        let idx = self.find_def(module, &e.ident.to_string());
                        let variants = e
                            .variants
                            .iter()
                            .map(|v| Variant {
                                name: v.ident.to_string(),
                                index: codec_attr(&v.attrs).1,
                                fields: self.fields(&v.fields, idx, module),
                                docs: docs_of(&v.attrs),
                            })
                            .collect();
                        self.prog.defs[idx].body = Body::Enum(variants);
                    }
                }
                syn::Item::Impl(i) if pass == 0 => {
                    // impl Config for X { type Inner = T; }
                    if let Some((_, path, _)) = &i.trait_ {
                        if path.is_ident("Config") {
                            let syn::Type::Path(tp) = &*i.self_ty else {
                                continue;
                            };
                            let name = tp.path.segments.last().unwrap().ident.to_string();
                            for ii in &i.items {
                                if let syn::ImplItem::Type(t) = ii {
                                    self.impls
                                        .push((name.clone(), t.ty.clone(), module.to_vec()));
                                }
                            }
                        }
                    }
                }
                _ => {}
            }
        }
    }

    fn declare(
        &mut self,
        module: &[String],
        ident: &syn::Ident,
        generics: &syn::Generics,
        attrs: &[syn::Attribute],
    ) {
        let skipped = skipped_params(attrs);
        let mut full = self.prefix.clone();
        full.extend(module.iter().cloned());
        self.index.push((module.to_vec(), ident.to_string()));
        self.prog.defs.push(Def {
            module: full,
            name: ident.to_string(),
            params: generics
                .type_params()
                .map(|p| Param {
                    name: p.ident.to_string(),
                    skipped: skipped.contains(&p.ident.to_string()),
                })
                .collect(),
            body: Body::Struct(Fields::Unit),
            docs: docs_of(attrs),
            assoc: None,
        });
    }

    fn find_def(&self, module: &[String], name: &str) -> usize {
        self.index
            .iter()
            .position(|(m, n)| m == module && n == name)
            .unwrap_or_else(|| panic!("def {module:?}::{name} not declared"))
    }

    /// Resolve a (possibly qualified) path to a def, as Rust would from `module`.
    fn resolve_def(&self, segs: &[String], module: &[String]) -> Option<usize> {
        let mut base = module.to_vec();
        let mut segs = segs.to_vec();
        while segs.first().map(|s| s == "super").unwrap_or(false) {
            base.pop();
            segs.remove(0);
        }
        let (name, mods) = segs.split_last()?;
        // relative to base, then walking up (every module does `use super::*`)
        let mut b = base.clone();
        loop {
            let mut m = b.clone();
            m.extend(mods.iter().cloned());
            if let Some(i) = self
                .index
                .iter()
                .position(|(dm, dn)| *dm == m && dn == name)
            {
                return Some(i);
            }
            if b.is_empty() {
                return None;
            }
            b.pop();
        }
    }

    fn fields(&self, f: &syn::Fields, ctx: usize, module: &[String]) -> Fields {
        let conv = |f: &syn::Field| -> Field {
            Field {
                ty: self.ty(&f.ty, Some(ctx), module),
                compact: codec_attr(&f.attrs).0,
                docs: docs_of(&f.attrs),
            }
        };
        match f {
            syn::Fields::Unit => Fields::Unit,
            syn::Fields::Named(n) => Fields::Named(
                n.named
                    .iter()
                    .map(|f| (f.ident.as_ref().unwrap().to_string(), conv(f)))
                    .collect(),
            ),
            syn::Fields::Unnamed(u) => Fields::Unnamed(u.unnamed.iter().map(conv).collect()),
        }
    }

    fn ty(&self, t: &syn::Type, ctx: Option<usize>, module: &[String]) -> Ty {
        let rec = |t: &syn::Type| Box::new(self.ty(t, ctx, module));
        match t {
            syn::Type::Tuple(tt) => {
                Ty::Tuple(tt.elems.iter().map(|e| self.ty(e, ctx, module)).collect())
            }
            syn::Type::Array(a) => {
                let syn::Expr::Lit(syn::ExprLit {
                    lit: syn::Lit::Int(n),
                    ..
                }) = &a.len
                else {
                    panic!("array len")
                };
                Ty::Array(rec(&a.elem), n.base10_parse().unwrap())
            }
            syn::Type::Slice(s) => Ty::Vec(rec(&s.elem)),
            syn::Type::Paren(p) => self.ty(&p.elem, ctx, module),
            syn::Type::Path(p) => {
                let segs: Vec<String> = p
                    .path
                    .segments
                    .iter()
                    .map(|s| s.ident.to_string())
                    .collect();
                let last = p.path.segments.last().unwrap();
                let args: Vec<&syn::Type> = match &last.arguments {
                    syn::PathArguments::AngleBracketed(a) => a
                        .args
                        .iter()
                        .filter_map(|g| match g {
                            syn::GenericArgument::Type(t) => Some(t),
                            _ => None,
                        })
                        .collect(),
                    _ => vec![],
                };
                // generic parameter or associated type
                if let Some(c) = ctx {
                    let params = &self.prog.defs[c].params;
                    if segs.len() == 1 {
                        if let Some(i) = params.iter().position(|p| p.name == segs[0]) {
                            return Ty::Param(i);
                        }
                    }
                    if segs.len() == 2 && segs[1] == "Inner" {
                        if let Some(i) = params.iter().position(|p| p.name == segs[0]) {
                            return Ty::Assoc(i);
                        }
                    }
                }
                // user definitions shadow std names
                if let Some(d) = self.resolve_def(&segs, module) {
                    return Ty::Named(d, args.iter().map(|a| self.ty(a, ctx, module)).collect());
                }
                let name = last.ident.to_string();
                if let Some(p) = Prim::from_rust_name(&name) {
                    return Ty::Prim(p);
                }
                let a = |i: usize| rec(args[i]);
                match name.as_str() {
                    "Vec" => Ty::Vec(a(0)),
                    "VecDeque" => Ty::VecDeque(a(0)),
                    "Option" => Ty::Option(a(0)),
                    "Result" => Ty::Result(a(0), a(1)),
                    "Box" => Ty::Box(a(0)),
                    "Cow" => match &*a(0) {
                        Ty::Prim(Prim::Str) => Ty::CowStr,
                        Ty::Vec(u) if **u == Ty::Prim(Prim::U8) => Ty::CowBytes,
                        other => Ty::Cow(Box::new(other.clone())),
                    },
                    "BTreeMap" => Ty::BTreeMap(a(0), a(1)),
                    "BTreeSet" => Ty::BTreeSet(a(0)),
                    "BinaryHeap" => Ty::BinaryHeap(a(0)),
                    "Range" => Ty::Range(a(0)),
                    "RangeInclusive" => Ty::RangeInclusive(a(0)),
                    "Duration" => Ty::Duration,
                    "Compact" => Ty::Compact(a(0)),
                    "PhantomData" => Ty::Phantom(a(0)),
                    "BitVec" => {
                        let store = *a(0);
                        let order = *a(1);
                        match (&store, &order) {
                            (Ty::Prim(p), Ty::Order(msb)) => Ty::BitVec(*p, *msb),
                            _ => Ty::BitVecG(Box::new(store), Box::new(order)),
                        }
                    }
                    "Lsb0" => Ty::Order(false),
                    "Msb0" => Ty::Order(true),
                    n if n.starts_with("NonZero") => {
                        let p = Prim::from_rust_name(&n["NonZero".len()..].to_lowercase())
                            .expect("NonZero kind");
                        Ty::NonZero(p)
                    }
                    other => panic!("unknown type `{other}` in corpus"),
                }
            }
            other => panic!("unsupported type syntax {}", quote::quote!(#other)),
        }
    }
}

/// Parse the corpus text into a program (without roots) plus the root type list.
pub fn parse_corpus(src: &str, prefix: &[&str]) -> (Program, Vec<(String, Ty)>) {
    let file = syn::parse_file(src).expect("corpus parses");
    let mut p = Parser {
        prog: Program::default(),
        index: vec![],
        prefix: prefix.iter().map(|s| s.to_string()).collect(),
        impls: vec![],
    };
    p.collect_items(&file.items, &[], 0);
    let impls = std::mem::take(&mut p.impls);
    for (name, ty, module) in &impls {
        let idx = p.resolve_def(&[name.clone()], module).expect("impl target");
        let t = p.ty(ty, None, module);
        p.prog.defs[idx].assoc = Some(t);
    }
    p.collect_items(&file.items, &[], 1);
    // roots
    let mut roots = vec![];
    for it in &file.items {
        if let syn::Item::Macro(m) = it {
            if m.mac.path.is_ident("roots") {
                let parser =
                    syn::punctuated::Punctuated::<syn::Type, syn::Token![,]>::parse_terminated;
                let tys =
                    syn::parse::Parser::parse2(parser, m.mac.tokens.clone()).expect("roots list");
                for t in tys {
                    let name = quote::quote!(#t).to_string();
                    roots.push((name, p.ty(&t, None, &[])));
                }
            }
        }
    }
    (p.prog, roots)
}

/// `inner::deeper::GD<u8, super::W>` -> `GD<u8, W>` (segments starting with a lower-case letter
/// that are followed by `::`; `T::Inner` is untouched).
pub fn strip_module_qualifiers(s: &str) -> String {
    let mut out = String::new();
    let chars: Vec<char> = s.chars().collect();
    let mut i = 0;
    while i < chars.len() {
        let c = chars[i];
        let at_ident_start = (c.is_ascii_lowercase() || c == '_')
            && (i == 0 || !(chars[i - 1].is_alphanumeric() || chars[i - 1] == '_'));
        if at_ident_start {
            let mut j = i;
            while j < chars.len() && (chars[j].is_alphanumeric() || chars[j] == '_') {
                j += 1;
            }
            if j + 1 < chars.len() && chars[j] == ':' && chars[j + 1] == ':' {
                i = j + 2;
                continue;
            }
            out.extend(&chars[i..j]);
            i = j;
            continue;
        }
        out.push(c);
        i += 1;
    }
    out
}

#[derive(Debug, Clone, Default)]
pub struct Conformance {
    pub defs: usize,
    pub roots_compared: usize,
    pub entries_compared: usize,
    pub constructors: BTreeSet<String>,
}

fn constructors_of(ty: &Ty, out: &mut BTreeSet<String>) {
    let name = format!("{ty:?}");
    let head = name
        .split(|c: char| !c.is_alphanumeric())
        .next()
        .unwrap_or("")
        .to_string();
    out.insert(head);
    match ty {
        Ty::Named(_, a) | Ty::Tuple(a) => a.iter().for_each(|t| constructors_of(t, out)),
        Ty::Vec(t)
        | Ty::VecDeque(t)
        | Ty::Array(t, _)
        | Ty::Option(t)
        | Ty::Box(t)
        | Ty::BTreeSet(t)
        | Ty::BinaryHeap(t)
        | Ty::Range(t)
        | Ty::RangeInclusive(t)
        | Ty::Compact(t)
        | Ty::Cow(t)
        | Ty::Phantom(t) => constructors_of(t, out),
        Ty::BitVecG(a, b) => {
            constructors_of(a, out);
            constructors_of(b, out)
        }
        Ty::Result(a, b) | Ty::BTreeMap(a, b) => {
            constructors_of(a, out);
            constructors_of(b, out)
        }
        _ => {}
    }
}

/// Compare `elaborate(spm)` with the registries real scale-info produced. `Err` is a
/// machinery failure (the environment model is wrong), never a verdict.
pub fn check_conformance() -> Result<Conformance, String> {
    let (prog, roots) = parse_corpus(DEFS_SRC, &["vcore", "corpus", "defs"]);
    let real = defs::real_registries();
    if real.len() != roots.len() + 1 {
        return Err(format!(
            "root count mismatch: real {} vs parsed {}",
            real.len(),
            roots.len()
        ));
    }
    let mut c = Conformance {
        defs: prog.defs.len(),
        ..Default::default()
    };
    for d in &prog.defs {
        for f in d.all_fields() {
            constructors_of(&f.ty, &mut c.constructors);
        }
        if d.params.iter().any(|p| p.skipped) {
            c.constructors.insert("SkippedParam".into());
        }
        if let Body::Enum(vs) = &d.body {
            if vs.iter().any(|v| v.index.is_some()) {
                c.constructors.insert("ExplicitIndex".into());
            }
        }
    }
    for (_, r) in &roots {
        constructors_of(r, &mut c.constructors);
    }
    let mut cases: Vec<(String, Vec<Ty>)> = roots
        .iter()
        .map(|(n, t)| (n.clone(), vec![t.clone()]))
        .collect();
    cases.push(("*".into(), roots.iter().map(|(_, t)| t.clone()).collect()));
    for ((name, tys), (real_name, real_reg)) in cases.iter().zip(real.iter()) {
        let mut p = prog.clone();
        p.roots = tys.clone();
        let e = elaborate(&p);
        // The model writes user types by bare name (as if imported); the corpus also uses
        // qualified paths (`inner::N`). Strip lower-case module qualifiers from the real type names.
        let mut real_reg = real_reg.clone();
        for t in real_reg.types.iter_mut() {
            let fix = |f: &mut scale_info::Field<scale_info::form::PortableForm>| {
                if let Some(n) = &mut f.type_name {
                    *n = strip_module_qualifiers(n);
                }
            };
            match &mut t.ty.type_def {
                scale_info::TypeDef::Composite(c) => c.fields.iter_mut().for_each(fix),
                scale_info::TypeDef::Variant(v) => v
                    .variants
                    .iter_mut()
                    .for_each(|v| v.fields.iter_mut().for_each(fix)),
                _ => {}
            }
        }
        let real_reg = &real_reg;
        if e.registry != *real_reg {
            // find first differing entry for the message
            let mut msg = format!(
                "conformance failure for root `{name}` (real `{real_name}`): {} vs {} entries",
                e.registry.types.len(),
                real_reg.types.len()
            );
            for (a, b) in e.registry.types.iter().zip(real_reg.types.iter()) {
                if a != b {
                    msg.push_str(&format!("\n model: {:?}\n real:  {:?}", a, b));
                    break;
                }
            }
            return Err(msg);
        }
        c.roots_compared += 1;
        c.entries_compared += real_reg.types.len();
    }
    Ok(c)
}
