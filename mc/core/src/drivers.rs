//! Drivers (DESIGN.md 3.5): bounded families of well-formed registries, each enumerated
//! completely by breadth-first search over construction steps.

use crate::engine::{hash128, Driver};
use crate::settings::SettingsSpec;
use crate::spm::*;
use scale_info::PortableRegistry;
use serde::{Deserialize, Serialize};
use serde_json::{json, Value};

#[derive(Clone, Debug, Serialize, Deserialize)]
pub enum RegSrc {
    Prog(Program),
    /// the Polkadot metadata registry, optionally restricted with `retain({id})`
    Polkadot {
        retain: Option<u32>,
    },
    Raw(PortableRegistry),
}

#[derive(Clone, Debug, Serialize, Deserialize)]
pub struct Case {
    pub reg: RegSrc,
    pub settings: SettingsSpec,
    pub note: String,
    /// run `ensure_unique_type_paths` on the registry first
    #[serde(default)]
    pub dedup: bool,
}

thread_local! {
    static POLKADOT: PortableRegistry = crate::run::polkadot_registry();
}

impl RegSrc {
    pub fn registry(&self) -> PortableRegistry {
        match self {
            RegSrc::Prog(p) => elaborate(p).registry,
            RegSrc::Raw(r) => r.clone(),
            RegSrc::Polkadot { retain } => POLKADOT.with(|r| {
                let mut r = r.clone();
                if let Some(id) = retain {
                    r.retain(|i| i == *id);
                }
                r
            }),
        }
    }
    pub fn describe(&self) -> Value {
        match self {
            RegSrc::Prog(p) => json!({"program": p.to_source()}),
            RegSrc::Polkadot { retain } => json!({"polkadot_retain": retain}),
            RegSrc::Raw(r) => json!({"raw_registry_entries": r.types.len()}),
        }
    }
    pub fn size(&self) -> usize {
        match self {
            RegSrc::Prog(p) => p.to_source().len(),
            RegSrc::Polkadot { retain: None } => 1_000_000,
            RegSrc::Polkadot { .. } => 100_000,
            RegSrc::Raw(r) => r.types.len() * 100,
        }
    }
}

impl Case {
    pub fn new(reg: RegSrc, settings: SettingsSpec, note: impl Into<String>) -> Case {
        Case {
            reg,
            settings,
            note: note.into(),
            dedup: false,
        }
    }
    /// the registry of this case (after de-duplication if requested); Err = de-duplication failed
    pub fn registry(&self) -> Result<PortableRegistry, String> {
        let mut r = self.reg.registry();
        if self.dedup {
            match crate::run::guarded(|| scale_typegen::utils::ensure_unique_type_paths(&mut r)) {
                Ok(Ok(())) => {}
                Ok(Err(e)) => return Err(format!("ensure_unique_type_paths: {e}")),
                Err(p) => return Err(format!("ensure_unique_type_paths panics: {p}")),
            }
        }
        Ok(r)
    }
    pub fn replay(&self, check: &str) -> Value {
        json!({"check": check, "case": serde_json::to_value(self).unwrap(), "source": self.reg.describe()})
    }
}

// ---------------------------------------------------------------------------
// helper definitions shared by several drivers

pub fn named(fields: Vec<(&str, Ty)>) -> Fields {
    Fields::Named(
        fields
            .into_iter()
            .map(|(n, t)| (n.to_string(), Field::new(t)))
            .collect(),
    )
}
pub fn unnamed(fields: Vec<Ty>) -> Fields {
    Fields::Unnamed(fields.into_iter().map(Field::new).collect())
}
pub fn b(t: Ty) -> Box<Ty> {
    Box::new(t)
}
pub const U8: Ty = Ty::Prim(Prim::U8);
pub const U16: Ty = Ty::Prim(Prim::U16);
pub const U32: Ty = Ty::Prim(Prim::U32);

/// Names used for the helper struct `N` - one per shortcut visible in the code.
pub const SPECIAL_NAMES: [&str; 5] = ["N", "Cow", "Option", "N1", "Vec"];

/// defs: 0 = N {v: u32}, 1 = G<T> {g: T}, 2 = W(u32)
pub fn helper_defs(n_name: &str) -> Vec<Def> {
    vec![
        Def::strukt(&["p", "a"], n_name, &[], named(vec![("v", U32)])),
        Def::strukt(&["p", "a"], "G", &["T"], named(vec![("g", Ty::Param(0))])),
        Def::strukt(&["p", "b"], "W", &[], unnamed(vec![U32])),
    ]
}
pub const D_N: usize = 0;
pub const D_G: usize = 1;
pub const D_W: usize = 2;

// ---------------------------------------------------------------------------
// D-arms

#[derive(Clone, Copy, Debug, PartialEq, Eq, Hash, Serialize, Deserialize)]
pub enum Position {
    NamedStruct,
    TupleStruct,
    NamedVariant,
    TupleVariant,
    Root,
}
pub const POSITIONS: [Position; 5] = [
    Position::NamedStruct,
    Position::TupleStruct,
    Position::NamedVariant,
    Position::TupleVariant,
    Position::Root,
];

#[derive(Clone, Debug)]
pub struct ArmsState {
    pub expr: Ty,
    pub depth: u32,
}

pub struct DArms {
    /// leaves allowed below depth 0 (depth >= 2 uses the reduced set)
    pub max_depth: u32,
}

pub fn arms_leaves() -> Vec<Ty> {
    let mut v: Vec<Ty> = Prim::ALL.iter().map(|p| Ty::Prim(*p)).collect();
    v.push(Ty::Named(D_N, vec![]));
    v.push(Ty::Named(D_W, vec![]));
    v.push(Ty::Tuple(vec![]));
    v.push(Ty::CowStr);
    v.push(Ty::CowBytes);
    for p in Prim::INTS {
        v.push(Ty::NonZero(p));
    }
    v.push(Ty::Duration);
    for st in [Prim::U8, Prim::U16, Prim::U32, Prim::U64] {
        for msb in [false, true] {
            v.push(Ty::BitVec(st, msb));
        }
    }
    v
}

pub fn compactable(t: &Ty) -> bool {
    match t {
        Ty::Prim(p) => p.is_unsigned(),
        Ty::Named(d, a) => *d == D_W && a.is_empty(),
        _ => false,
    }
}

pub fn arms_wrappers(t: &Ty) -> Vec<Ty> {
    let x = || b(t.clone());
    let mut v = vec![
        Ty::Vec(x()),
        Ty::Array(x(), 0),
        Ty::Array(x(), 2),
        Ty::Array(x(), 32),
        Ty::Tuple(vec![t.clone()]),
        Ty::Tuple(vec![t.clone(), U8]),
        Ty::Option(x()),
        Ty::Result(x(), b(U8)),
        Ty::Box(x()),
        Ty::BTreeMap(b(U8), x()),
        Ty::BTreeSet(x()),
        Ty::BinaryHeap(x()),
        Ty::VecDeque(x()),
        Ty::Range(x()),
        Ty::RangeInclusive(x()),
        Ty::Named(D_G, vec![t.clone()]),
        Ty::Cow(x()),
    ];
    if compactable(t) || *t == Ty::Tuple(vec![]) {
        v.push(Ty::Compact(x()));
    }
    v
}

impl Driver for DArms {
    type State = ArmsState;
    fn name(&self) -> String {
        format!("D-arms(depth<={})", self.max_depth)
    }
    fn initial(&self) -> Vec<ArmsState> {
        arms_leaves()
            .into_iter()
            .map(|expr| ArmsState { expr, depth: 0 })
            .collect()
    }
    fn successors(&self, s: &ArmsState, depth: u32) -> Vec<ArmsState> {
        // below depth 1 only the reduced leaf set {u8, N, String} is wrapped twice
        if depth + 1 >= 2 {
            fn leaf(t: &Ty) -> &Ty {
                match t {
                    Ty::Vec(x)
                    | Ty::Array(x, _)
                    | Ty::Option(x)
                    | Ty::Box(x)
                    | Ty::BTreeSet(x)
                    | Ty::BinaryHeap(x)
                    | Ty::VecDeque(x)
                    | Ty::Range(x)
                    | Ty::RangeInclusive(x)
                    | Ty::Cow(x)
                    | Ty::Compact(x) => leaf(x),
                    Ty::Result(x, _) => leaf(x),
                    Ty::BTreeMap(_, x) => leaf(x),
                    Ty::Tuple(xs) if !xs.is_empty() => leaf(&xs[0]),
                    Ty::Named(d, xs) if *d == D_G => leaf(&xs[0]),
                    other => other,
                }
            }
            let l = leaf(&s.expr);
            let reduced = [U8, Ty::Named(D_N, vec![]), Ty::Prim(Prim::Str)];
            if !reduced.contains(l) {
                return vec![];
            }
        }
        arms_wrappers(&s.expr)
            .into_iter()
            .map(|expr| ArmsState {
                expr,
                depth: depth + 1,
            })
            .collect()
    }
    fn key(&self, s: &ArmsState) -> Option<u128> {
        Some(hash128(&s.expr))
    }
    fn describe(&self, s: &ArmsState) -> Value {
        let p = arms_program(&s.expr, Position::NamedStruct, false, "N");
        json!({"expr": p.ty_src(&s.expr, None), "example_program": p.to_source()})
    }
}

/// The program placing `expr` at `pos`. `n_name` names the helper struct.
pub fn arms_program(expr: &Ty, pos: Position, compact_attr: bool, n_name: &str) -> Program {
    let mut defs = helper_defs(n_name);
    let f = Field {
        ty: expr.clone(),
        compact: compact_attr,
        docs: vec![],
    };
    let host = defs.len();
    let root = match pos {
        Position::Root => expr.clone(),
        Position::NamedStruct => {
            defs.push(Def {
                docs: vec!["host doc".into(), "second line".into()],
                ..Def::strukt(
                    &["p", "h"],
                    "Host",
                    &[],
                    Fields::Named(vec![("x".into(), Field::new(U8)), ("f".into(), f)]),
                )
            });
            Ty::Named(host, vec![])
        }
        Position::TupleStruct => {
            defs.push(Def::strukt(
                &["p", "h"],
                "Host",
                &[],
                Fields::Unnamed(vec![f]),
            ));
            Ty::Named(host, vec![])
        }
        Position::NamedVariant => {
            defs.push(Def::enm(
                &["p", "h"],
                "Host",
                &[],
                vec![
                    Variant {
                        docs: vec!["variant doc".into()],
                        ..variant("A", Fields::Unit)
                    },
                    Variant {
                        index: Some(7),
                        ..variant(
                            "B",
                            Fields::Named(vec![("f".into(), f), ("y".into(), Field::new(U16))]),
                        )
                    },
                ],
            ));
            Ty::Named(host, vec![])
        }
        Position::TupleVariant => {
            defs.push(Def::enm(
                &["p", "h"],
                "Host",
                &[],
                vec![
                    Variant {
                        index: Some(3),
                        ..variant("A", Fields::Unnamed(vec![Field::new(U16), f]))
                    },
                    // the largest index a variant can have (a u8 on the wire)
                    Variant {
                        index: Some(255),
                        ..variant("B", Fields::Unit)
                    },
                ],
            ));
            Ty::Named(host, vec![])
        }
    };
    Program {
        defs,
        roots: vec![root],
    }
}

/// D-real: one program with the shapes real chain metadata has and the small drivers do not: an enum with 130
/// variants whose indices have gaps (0, 2, 4 ... 254, then 255), docs on every variant, a module path five
/// segments deep, a three-parameter generic whose middle parameter is skipped (BoundedVec style), a ten-element
/// tuple, arrays of length 64 and 256, `Option<Box<Self>>`.
pub fn real_shapes_program() -> Program {
    let deep = ["p", "q1", "q2", "q3", "q4"];
    let mut defs = vec![];
    // 0: Bounded<T, S, U> { inner: Vec<T>, extra: U } with S skipped
    let mut bounded = Def::strukt(&deep, "Bounded", &["T", "S", "U"], named(vec![("inner", Ty::Vec(b(Ty::Param(0)))), ("extra", Ty::Param(2))]));
    bounded.params[1].skipped = true;
    defs.push(bounded);
    // 1: Max (the bound marker), 2: Leaf
    defs.push(Def::strukt(&deep, "Max", &[], Fields::Unit));
    defs.push(Def::strukt(&["p", "a"], "Leaf", &[], named(vec![("v", U32)])));
    // 3: Big enum
    let mut variants = vec![];
    for i in 0..130usize {
        let index = if i < 128 { (i * 2) as u8 } else if i == 128 { 255 } else { 253 };
        let fields = match i % 4 {
            0 => Fields::Unit,
            1 => Fields::Unnamed(vec![Field::new(U8), Field::new(Ty::Named(2, vec![]))]),
            2 => Fields::Named(vec![("a".into(), Field::new(Ty::Named(0, vec![U8, Ty::Named(1, vec![]), U16]))), ("b".into(), Field { compact: true, ..Field::new(U32) })]),
            _ => Fields::Named(vec![("next".into(), Field::new(Ty::Option(b(Ty::Box(b(Ty::Named(3, vec![])))))))]),
        };
        variants.push(Variant {
            index: Some(index),
            docs: vec![format!("variant number {i}"), "second line".into()],
            ..variant(&format!("V{i}"), fields)
        });
    }
    defs.push(Def {
        docs: vec!["a large enum".into()],
        ..Def::enm(&deep, "Big", &[], variants)
    });
    // 4: Host
    defs.push(Def::strukt(
        &["p", "h"],
        "Host",
        &[],
        named(vec![
            ("big", Ty::Named(3, vec![])),
            ("ten", Ty::Tuple(vec![U8, U16, U32, U8, U16, U32, U8, U16, U32, Ty::Named(2, vec![])])),
            ("a64", Ty::Array(b(U8), 64)),
            // lengths that are neither small nor a multiple of a power of two
            ("a33", Ty::Array(b(U8), 33)),
            ("a65", Ty::Array(b(U8), 65)),
            ("a100", Ty::Array(b(Ty::Tuple(vec![U8, Ty::Prim(Prim::Bool)])), 100)),
            ("a256", Ty::Array(b(Ty::Named(2, vec![])), 256)),
            ("bounded", Ty::Named(0, vec![Ty::Named(2, vec![]), Ty::Named(1, vec![]), U8])),
        ]),
    ));
    Program { defs, roots: vec![Ty::Named(4, vec![])] }
}

/// D-deep: depth instead of width - a module path ten segments deep, the helper generic nested five times, and a
/// chain of forty-eight structs each wrapping the next (the last one holds the five-fold generic); the root also has
/// a field of ten nested `Vec`s and one of ten mixed wrappers.
pub fn deep_program() -> Program {
    let mods = ["p", "d1", "d2", "d3", "d4", "d5", "d6", "d7", "d8", "d9"];
    let mut defs = vec![Def::strukt(&mods, "G", &["T"], named(vec![("g", Ty::Param(0))]))];
    let mut nested = U8;
    for _ in 0..5 {
        nested = Ty::Named(0, vec![nested]);
    }
    // S47 { f: G<G<G<G<G<u8>>>>>, n: u8 }, S46 { f: S47, n: u8 } ... S0
    for i in (0..48usize).rev() {
        let inner = if i == 47 { nested.clone() } else { Ty::Named(defs.len() - 1, vec![]) };
        defs.push(Def::strukt(&mods[..(1 + i % 10)], &format!("S{i}"), &[], named(vec![("f", inner), ("n", U8)])));
    }
    let chain = defs.len() - 1;
    let mut vecs = U8;
    for _ in 0..10 {
        vecs = Ty::Vec(b(vecs));
    }
    let mut mixed = Ty::Prim(Prim::Bool);
    for i in 0..10 {
        mixed = match i % 4 {
            0 => Ty::Vec(b(mixed)),
            1 => Ty::Option(b(mixed)),
            2 => Ty::Tuple(vec![U8, mixed]),
            _ => Ty::Array(b(mixed), 2),
        };
    }
    defs.push(Def::enm(
        &["p", "d1"],
        "DeepRoot",
        &[],
        vec![variant("A", Fields::Named(vec![("chain".into(), Field::new(Ty::Named(chain, vec![]))), ("vecs".into(), Field::new(vecs))])), variant("B", Fields::Unnamed(vec![Field::new(mixed)]))],
    ));
    let root = defs.len() - 1;
    Program { defs, roots: vec![Ty::Named(root, vec![])] }
}

/// Degenerate registries: nothing at all, a single primitive, only prelude types, a struct whose only field is
/// `()`, an enum whose only variant has no fields, a tuple struct of one one-element tuple.
pub fn degenerate_programs() -> Vec<(String, Program)> {
    let mut v = vec![
        ("empty registry".to_string(), Program { defs: vec![], roots: vec![] }),
        ("a single primitive".to_string(), Program { defs: vec![], roots: vec![U8] }),
        ("only prelude types".to_string(), Program { defs: vec![], roots: vec![Ty::Option(b(Ty::Vec(b(U8)))), Ty::BTreeMap(b(U8), b(Ty::Prim(Prim::Str)))] }),
    ];
    let one = |name: &str, def: Def| (name.to_string(), Program { defs: vec![def], roots: vec![Ty::Named(0, vec![])] });
    v.push(one("a struct whose only field is ()", Def::strukt(&["p", "z"], "OnlyUnit", &[], named(vec![("u", Ty::Tuple(vec![]))]))));
    v.push(one("an enum whose only variant has no fields", Def::enm(&["p", "z"], "OnlyNil", &[], vec![variant("Nil", Fields::Unit)])));
    v.push(one("a tuple struct of one one-element tuple", Def::strukt(&["p", "z"], "Nest", &[], unnamed(vec![Ty::Tuple(vec![U8])]))));
    v.push(one("a field-less struct", Def::strukt(&["p", "z"], "Nothing", &[], Fields::Unit)));
    v
}

/// D-real, D-deep and the degenerate registries: single programs run next to the enumerated drivers.
/// D-threes: what needs THREE of something - definitions with three parameters in every used / unused pattern
/// (a used one between two unused ones, two used in one field around an unused one), three prelude `Cow`s around
/// one type, field lists of the form A-B-A, arrays of odd length and of user types, a tuple of three and four
/// elements as a generic argument, a struct below two unnamed wrappers, a chain of three user types.
pub fn threes_program() -> Program {
    let m = ["p", "t3"];
    let mut defs = vec![];
    // 0: Leaf, 1: Kind, 2: W<T>
    defs.push(Def::strukt(&m, "Leaf", &[], named(vec![("v", U32)])));
    defs.push(Def::enm(&m, "Kind", &[], vec![variant("A", Fields::Unit), variant("B", Fields::Unnamed(vec![Field::new(U16)])), variant("C", Fields::Named(vec![("c".into(), Field::new(Ty::Prim(Prim::Bool)))]))]));
    defs.push(Def::strukt(&m, "W", &["T"], named(vec![("g", Ty::Param(0))])));
    // 3..=10: P0 .. P7 <A, B, C>: bit i of the number = parameter i is used by a field; the others are kept in a marker
    let first_p = defs.len();
    for mask in 0..8usize {
        let names = ["a", "b", "c"];
        let mut fields: Vec<(&str, Ty)> = vec![];
        let mut unused = vec![];
        for i in 0..3 {
            if mask & (1 << i) != 0 {
                fields.push((names[i], Ty::Param(i)));
            } else {
                unused.push(Ty::Param(i));
            }
        }
        if !unused.is_empty() {
            fields.push(("marker", Ty::Phantom(b(if unused.len() == 1 { unused[0].clone() } else { Ty::Tuple(unused) }))));
        }
        defs.push(Def::strukt(&m, &format!("P{mask}"), &["A", "B", "C"], if fields.is_empty() { Fields::Unit } else { named(fields) }));
    }
    // 11: Around<A, B, C> { ac: (A, C), marker: PhantomData<B> }, 12: the same as an enum
    let around = defs.len();
    defs.push(Def::strukt(&m, "Around", &["A", "B", "C"], named(vec![("ac", Ty::Tuple(vec![Ty::Param(0), Ty::Param(2)])), ("marker", Ty::Phantom(b(Ty::Param(1))))])));
    defs.push(Def::enm(&m, "AroundE", &["A", "B", "C"], vec![variant("X", Fields::Unnamed(vec![Field::new(Ty::Param(1))])), variant("Y", Fields::Named(vec![("m".into(), Field::new(Ty::Phantom(b(Ty::Tuple(vec![Ty::Param(0), Ty::Param(2)])))))]))]));
    // 13: Moves (A-B-A field lists), 14: Move, 15: SetRange
    let moves = defs.len();
    defs.push(Def::enm(&m, "Moves", &[], vec![
        variant("Move", Fields::Named(vec![("from".into(), Field::new(U16)), ("memo".into(), Field::new(Ty::CowStr)), ("to".into(), Field::new(U16))])),
        variant("SetRange", Fields::Unnamed(vec![Field::new(U32), Field::new(Ty::Prim(Prim::Bool)), Field::new(U32)])),
        variant("Five", Fields::Unnamed(vec![Field::new(U8), Field::new(Ty::Named(0, vec![])), Field::new(U8), Field::new(Ty::Named(0, vec![])), Field::new(U8)])),
    ]));
    defs.push(Def::strukt(&m, "Move", &[], named(vec![("from", U16), ("memo", Ty::Vec(b(U8))), ("to", U16)])));
    defs.push(Def::strukt(&m, "SetRange", &[], Fields::Unnamed(vec![Field::new(U32), Field::new(Ty::Prim(Prim::Bool)), Field::new(U32)])));
    // 16: Mid { leaf: Leaf }, 17: Outer { mid: Mid, w: W<Mid> }
    let mid = defs.len();
    defs.push(Def::strukt(&m, "Mid", &[], named(vec![("leaf", Ty::Named(0, vec![]))])));
    defs.push(Def::strukt(&m, "Outer", &[], named(vec![("mid", Ty::Named(mid, vec![])), ("w", Ty::Named(2, vec![Ty::Named(mid, vec![])]))])));
    let outer = defs.len() - 1;
    // Host
    let mut fields: Vec<(String, Ty)> = vec![];
    for mask in 0..8usize {
        fields.push((format!("p{mask}"), Ty::Named(first_p + mask, vec![U8, U16, U32])));
        fields.push((format!("q{mask}"), Ty::Named(first_p + mask, vec![U32, Ty::Named(0, vec![]), U8])));
    }
    fields.push(("around".into(), Ty::Named(around, vec![U8, U16, U32])));
    fields.push(("around2".into(), Ty::Named(around, vec![U32, U8, U16])));
    fields.push(("around_e".into(), Ty::Named(around + 1, vec![U8, U16, U32])));
    fields.push(("cow3".into(), Ty::Cow(b(Ty::Cow(b(Ty::CowStr))))));
    fields.push(("cow3v".into(), Ty::Vec(b(Ty::Cow(b(Ty::Cow(b(Ty::CowBytes))))))));
    fields.push(("cow3n".into(), Ty::Cow(b(Ty::Cow(b(Ty::Cow(b(Ty::Named(0, vec![]))))))))); 
    fields.push(("moves".into(), Ty::Named(moves, vec![])));
    fields.push(("mv".into(), Ty::Named(moves + 1, vec![])));
    fields.push(("sr".into(), Ty::Named(moves + 2, vec![])));
    fields.push(("a3".into(), Ty::Array(b(U8), 3)));
    fields.push(("a5".into(), Ty::Array(b(U16), 5)));
    fields.push(("a7".into(), Ty::Array(b(Ty::Prim(Prim::Bool)), 7)));
    fields.push(("al3".into(), Ty::Array(b(Ty::Named(0, vec![])), 3)));
    fields.push(("ao2".into(), Ty::Array(b(Ty::Option(b(U8))), 2)));
    fields.push(("aa".into(), Ty::Array(b(Ty::Array(b(Ty::Named(0, vec![])), 1)), 2)));
    fields.push(("ak4".into(), Ty::Array(b(Ty::Tuple(vec![U32, Ty::Named(1, vec![])])), 4)));
    fields.push(("w3".into(), Ty::Named(2, vec![Ty::Tuple(vec![U8, U16, U32])])));
    fields.push(("w4".into(), Ty::Option(b(Ty::Vec(b(Ty::Tuple(vec![Ty::Prim(Prim::Bool), U8, U16, U32])))))));
    fields.push(("ww".into(), Ty::Named(2, vec![Ty::Named(2, vec![Ty::Named(2, vec![Ty::Named(1, vec![])])])])));
    fields.push(("vt".into(), Ty::Vec(b(Ty::Tuple(vec![Ty::Named(0, vec![]), U8])))));
    fields.push(("vv".into(), Ty::Vec(b(Ty::Vec(b(Ty::Named(mid, vec![])))))));
    fields.push(("ovb".into(), Ty::Vec(b(Ty::Option(b(Ty::Box(b(Ty::Named(1, vec![])))))))));
    fields.push(("outer".into(), Ty::Named(outer, vec![])));
    defs.push(Def::strukt(&["p", "h"], "Host", &[], Fields::Named(fields.into_iter().map(|(n, t)| (n, Field::new(t))).collect())));
    let host = defs.len() - 1;
    Program { defs, roots: vec![Ty::Named(host, vec![])] }
}

pub fn special_programs() -> Vec<(String, Program)> {
    let mut v = vec![("D-real".to_string(), real_shapes_program()), ("D-deep".to_string(), deep_program()), ("D-threes".to_string(), threes_program())];
    v.extend(degenerate_programs().into_iter().map(|(n, p)| (format!("degenerate: {n}"), p)));
    // recursive structs whose only Box sits inside an array / a tuple / an Option of the written field type
    let rec = |name: &str, fields: Vec<(&str, Ty)>| (format!("D-rec-struct {name}"), Program { defs: vec![Def::strukt(&["p", "t"], name, &[], named(fields))], roots: vec![Ty::Named(0, vec![])] });
    let me = || Ty::Named(0, vec![]);
    v.push(rec("Tree", vec![("kids", Ty::Array(b(Ty::Option(b(Ty::Box(b(me()))))), 2)), ("v", U8)]));
    v.push(rec("Pair", vec![("both", Ty::Array(b(Ty::Box(b(me()))), 2)), ("v", U8)]));
    v.push(rec("Link", vec![("next", Ty::Tuple(vec![Ty::Option(b(Ty::Box(b(me())))), U8]))]));
    v.push(rec("Node", vec![("children", Ty::Vec(b(Ty::Tuple(vec![U32, me()]))))]));
    v
}

/// All programs of one D-arms state.
pub fn arms_programs(expr: &Ty) -> Vec<(Program, String)> {
    let mut out = vec![];
    for pos in POSITIONS {
        out.push((arms_program(expr, pos, false, "N"), format!("{pos:?}")));
        if compactable(expr) && pos != Position::Root {
            out.push((
                arms_program(expr, pos, true, "N"),
                format!("{pos:?}+compact"),
            ));
        }
    }
    out
}

// ---------------------------------------------------------------------------
// D-settings

/// the <= 1-flip neighbourhood of `base` that keeps codec attributes on and the compact/bits paths set
pub fn faithful_neighbourhood() -> Vec<(String, SettingsSpec)> {
    let base = SettingsSpec::faithful();
    let mut v = vec![("faithful".to_string(), base.clone())];
    let mut add = |n: &str, f: &dyn Fn(&mut SettingsSpec)| {
        let mut s = base.clone();
        f(&mut s);
        v.push((n.to_string(), s));
    };
    add("root=r", &|s| s.root = "r".into());
    add("alloc=::alloc", &|s| s.alloc = Some("::alloc".into()));
    add("alloc=::a::b", &|s| s.alloc = Some("::a::b".into()));
    add("alloc=crate::al", &|s| s.alloc = Some("crate::al".into()));
    add("docs=off", &|s| s.docs = false);
    add("derives=none", &|s| s.derives_all.clear());
    add("derives=3", &|s| {
        s.derives_all = vec!["Debug".into(), "::x::Clone".into(), "::y::Clone".into()]
    });
    add("compact_as=none", &|s| s.compact_as = None);
    add("subst=btreemap", &|s| {
        s.substitutes
            .push(("BTreeMap".into(), "::sub::KeyedVec".into()))
    });
    // a rule whose target does not mention the FIRST source parameter; the target's shape is known to the
    // interpreter (a u8-keyed map, which is what every BTreeMap of these drivers is), so the shape check sees
    // whether the rule hands over the right argument
    add("subst=btreemap-values", &|s| {
        s.substitutes
            .push(("BTreeMap<K, V>".into(), "::ext::U8Keyed<V>".into()))
    });
    v
}
