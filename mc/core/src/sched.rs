//! Map-iteration-order exploration through the `verif-hooks` feature of scale-typegen
//! (DESIGN.md section 6). Without the feature (binary `mc-plain`) only the identity run exists.

#[derive(Clone, Debug, Default, PartialEq, Eq, Hash, serde::Serialize, serde::Deserialize)]
pub struct Sched {
    pub default_code: usize,
    pub overrides: Vec<(usize, usize)>,
}

impl Sched {
    pub fn identity() -> Sched {
        Sched::default()
    }
    pub fn is_identity(&self) -> bool {
        self.default_code == 0 && self.overrides.is_empty()
    }
}

#[cfg(feature = "hooks")]
pub const HOOKS: bool = true;
#[cfg(not(feature = "hooks"))]
pub const HOOKS: bool = false;

/// run `f` under schedule `s`; returns its result and the trace (sizes of iteration points)
pub fn run_with<T>(s: &Sched, f: impl FnOnce() -> T) -> (T, Vec<usize>) {
    #[cfg(feature = "hooks")]
    {
        scale_typegen::verif_hooks::install(scale_typegen::verif_hooks::Schedule {
            default_code: s.default_code,
            overrides: s.overrides.clone(),
        });
        let r = std::panic::catch_unwind(std::panic::AssertUnwindSafe(f));
        let trace = scale_typegen::verif_hooks::uninstall();
        match r {
            Ok(v) => (v, trace),
            Err(e) => std::panic::resume_unwind(e),
        }
    }
    #[cfg(not(feature = "hooks"))]
    {
        let _ = s;
        (f(), vec![])
    }
}

pub fn codes_for_len(n: usize) -> usize {
    #[cfg(feature = "hooks")]
    {
        scale_typegen::verif_hooks::codes_for_len(n)
    }
    #[cfg(not(feature = "hooks"))]
    {
        let _ = n;
        1
    }
}

/// All schedules with at most `deviations` deviating iteration points for a run whose identity
/// trace is `trace` (each deviating point ranges over all its permutation codes, capped at
/// `max_codes` per point), plus the uniform schedules (every point permuted by code k, k = 1..uniform).
pub fn schedules(
    trace: &[usize],
    deviations: usize,
    max_codes: usize,
    uniform: usize,
) -> Vec<Sched> {
    let mut out = vec![Sched::identity()];
    if !HOOKS {
        return out;
    }
    for k in 1..=uniform {
        out.push(Sched {
            default_code: k,
            overrides: vec![],
        });
    }
    let codes = |n: usize| codes_for_len(n).min(max_codes);
    if deviations >= 1 {
        for (p, n) in trace.iter().enumerate() {
            for c in 1..codes(*n) {
                out.push(Sched {
                    default_code: 0,
                    overrides: vec![(p, c)],
                });
            }
        }
    }
    if deviations >= 2 {
        for (p, n) in trace.iter().enumerate() {
            for (q, m) in trace.iter().enumerate().skip(p + 1) {
                for c in 1..codes(*n) {
                    for d in 1..codes(*m) {
                        out.push(Sched {
                            default_code: 0,
                            overrides: vec![(p, c), (q, d)],
                        });
                    }
                }
            }
        }
    }
    out
}
