fn main() {
    vcore::main_entry(true)
}
