fn main() {
    vcore::main_entry(false)
}
